import MpfVerif.Lemmas.RulesCoils
import MpfVerif.Lemmas.RulesContent
import MpfVerif.Lemmas.RulesGen
/-!
# C10 — hardware switch-to-coil rules match the enabled devices exactly

Model: `MpfVerif.Rules` (Model/Rules.lean), the code *after* the three fixes (a refused rule leaves the device disabled
with nothing written; the software EOS repulse manager releases the coil it enabled when its rule is cleared).
`run c init ops` is any sequence of enable / disable / sw_flip / sw_release / ball-search / switch change / hit /
lifecycle event / clock advance requests, each followed by every software timer that is due.
`WF c`: the (switch, coil) keys of all rules of all devices are pairwise distinct.
-/
namespace MpfVerif.C10
open MpfVerif.Rules

/-- **rules_exact**: in every reachable state the platform table holds exactly the rules of the enabled devices:
every key at most once (no duplicate install), every row belongs to an enabled device (no leak), every rule of an
enabled device is present (nothing missing); and every auxiliary switch handler (PSU notification, software EOS
repulse) belongs to an enabled device. -/
theorem rules_exact (c : Cfg) (hw : WF c) (ops : List Op) :
    ((run c init ops).table.map Entry.key).Nodup ∧
    (∀ e, e ∈ (run c init ops).table ↔
      ∃ i, i < c.n ∧ ((run c init ops).devs i).enabled = true ∧ e ∈ entriesOf (c.dev i)) ∧
    (∀ a ∈ (run c init ops).aux, ∃ i, i < c.n ∧ ((run c init ops).devs i).enabled = true ∧ a ∈ auxOf (c.dev i)) := by
  have h := inv_run hw ops init (inv_init c)
  refine ⟨h.nodup, ?_, h.auxSound⟩
  intro e
  constructor
  · exact h.sound e
  · rintro ⟨i, hi, hen, he⟩
    exact h.complete i hi hen e he

/-- **enable_idempotent**: a second `enable()` changes neither the table, the handlers, the coils nor any device. -/
theorem enable_idempotent (c : Cfg) (s : St) (i : Nat) :
    (enableDev c (enableDev c s i) i).table = (enableDev c s i).table ∧
    (enableDev c (enableDev c s i) i).aux = (enableDev c s i).aux ∧
    (enableDev c (enableDev c s i) i).on = (enableDev c s i).on ∧
    (enableDev c (enableDev c s i) i).devs = (enableDev c s i).devs := by
  by_cases h : (s.devs i).enabled = true
  · have h1 : enableDev c s i = s := by unfold enableDev; simp [h]
    rw [h1, h1]; exact ⟨rfl, rfl, rfl, rfl⟩
  · by_cases hin : installable (c.dev i) = true
    · have hen : ((enableDev c s i).devs i).enabled = true := by
        unfold enableDev
        simp only [h, hin, if_true, Bool.false_eq_true, if_false]
        cases (c.dev i).kind <;> simp [upd]
      have h2 : enableDev c (enableDev c s i) i = enableDev c s i := by
        generalize enableDev c s i = s1 at hen
        unfold enableDev; simp [hen]
      rw [h2]; exact ⟨rfl, rfl, rfl, rfl⟩
    · have h1 : enableDev c s i = { s with refused := s.refused ++ [i] } := by
        unfold enableDev; simp [h, hin]
      rw [h1]
      unfold enableDev
      simp [h, hin]

/-- **disable_idempotent**: a second `disable()` changes neither the table, the handlers, the coils nor any device. -/
theorem disable_idempotent (c : Cfg) (s : St) (i : Nat) :
    (disableDev c (disableDev c s i) i).table = (disableDev c s i).table ∧
    (disableDev c (disableDev c s i) i).aux = (disableDev c s i).aux ∧
    (disableDev c (disableDev c s i) i).on = (disableDev c s i).on ∧
    ∀ j, (disableDev c (disableDev c s i) i).devs j = (disableDev c s i).devs j := by
  have hoff := off_disableDev_self c s i
  generalize disableDev c s i = s1 at hoff
  unfold disableDev
  simp only
  cases hk : (c.dev i).kind with
  | flipper f => simp [hoff.1]
  | autofire a =>
    have hre := hoff.2 a hk
    simp only [hoff.1, Bool.false_eq_true, if_false]
    refine ⟨rfl, rfl, rfl, ?_⟩
    intro j
    simp only [upd]
    split
    · rename_i hj
      subst hj
      have he := hoff.1
      revert he hre
      cases s1.devs j
      intro he hre
      simp_all
    · rfl

/-- **timeout_reenable_cancelled**: after a `disable()` the device has no re-enable delay pending and stays disabled
through every later sequence of requests (hits, ball search, clock advances past the old deadline, events …) that
contains no enable of that device (its API enable, an event in its enable events, a kickback whose fired event is
one): a pending autofire re-enable never fires after a disable. -/
theorem timeout_reenable_cancelled (c : Cfg) (s : St) (i : Nat) (ops : List Op)
    (hq : ∀ op ∈ ops, enables c i op = false) (hi : i < c.n) :
    ((run c (step c s (.disable i)) ops).devs i).enabled = false ∧
    (∀ a, (c.dev i).kind = .autofire a → ((run c (step c s (.disable i)) ops).devs i).reDue = none) := by
  apply off_run c i ops hq
  unfold step
  apply off_fireAll
  simp only [doOp, hi, if_true]
  exact off_disableDev_self c _ i

/-- **no_rules_outside_ball**: take any reachable state and an event that every device lists in its disable events
and none in its enable events (MPF's defaults: `ball_will_end`, `service_mode_entered`; a tilt, a slam tilt and the
end of the game reach `ball_will_end` through the game's `end_ball`).  After it, and through every later sequence of
requests that enables nothing (no ball started), the table and the auxiliary handlers are empty, no coil is energised
by a software command and every device is disabled: cabinet buttons cannot fire coils. -/
theorem no_rules_outside_ball (c : Cfg) (hw : WF c) (pre ops : List Op) (e : Nat)
    (hd : ∀ i, i < c.n → (c.dev i).disEv.contains e = true)
    (hn : ∀ i, i < c.n → (c.dev i).enEv.contains e = false)
    (hq : ∀ op ∈ ops, ∀ i, i < c.n → enables c i op = false) :
    (run c (step c (run c init pre) (.ev e)) ops).table = [] ∧
    (run c (step c (run c init pre) (.ev e)) ops).aux = [] ∧
    (run c (step c (run c init pre) (.ev e)) ops).on = [] ∧
    ∀ i, i < c.n → ((run c (step c (run c init pre) (.ev e)) ops).devs i).enabled = false := by
  have hoff : ∀ i, i < c.n → Off c (run c (step c (run c init pre) (.ev e)) ops) i := by
    intro i hi
    apply off_run c i ops (fun op ho => hq op ho i hi)
    unfold step
    apply off_fireAll
    exact off_all_evStep c _ e hd hn i hi
  have hinv : Inv c (run c (step c (run c init pre) (.ev e)) ops) :=
    inv_run hw ops _ (inv_step hw _ _ (inv_run hw pre init (inv_init c)))
  have hon : InvOn c (run c (step c (run c init pre) (.ev e)) ops) :=
    invOn_run ops _ (invOn_step _ _ (invOn_run pre init (invOn_init c)))
  refine ⟨?_, ?_, ?_, fun i hi => (hoff i hi).1⟩
  · apply List.eq_nil_iff_forall_not_mem.mpr
    intro x hx
    obtain ⟨i, hi, hen, _⟩ := hinv.sound x hx
    rw [(hoff i hi).1] at hen
    exact Bool.noConfusion hen
  · apply List.eq_nil_iff_forall_not_mem.mpr
    intro x hx
    obtain ⟨i, hi, hen, _⟩ := hinv.auxSound x hx
    rw [(hoff i hi).1] at hen
    exact Bool.noConfusion hen
  · apply List.eq_nil_iff_forall_not_mem.mpr
    intro x hx
    obtain ⟨i, hi, f, _, hen, _⟩ := hon x hx
    rw [(hoff i hi).1] at hen
    exact Bool.noConfusion hen

/-- **no_coil_energised_when_disabled**: in every reachable state (any configuration, any op sequence) a coil that a
software command has energised is owed to a flag of an *enabled* flipper: it is that flipper's main coil and the
flipper is software-flipped or its software EOS repulse has enabled the coil, or it is its hold coil and the flipper is
software-flipped.  Hence no coil is energised on behalf of a disabled flipper, and when every flipper is disabled no
coil is energised at all. -/
theorem no_coil_energised_when_disabled (c : Cfg) (ops : List Op) :
    (∀ x ∈ (run c init ops).on, ∃ i f, i < c.n ∧ (c.dev i).kind = .flipper f ∧
      ((run c init ops).devs i).enabled = true ∧
      ((x = f.main ∧ (((run c init ops).devs i).swFlipped = true ∨ ((run c init ops).devs i).repOn = true)) ∨
       (f.hold = some x ∧ ((run c init ops).devs i).swFlipped = true))) ∧
    ((∀ i f, i < c.n → (c.dev i).kind = .flipper f → ((run c init ops).devs i).enabled = false) →
      (run c init ops).on = []) := by
  have h := invOn_run (c := c) ops init (invOn_init c)
  have h1 : ∀ x ∈ (run c init ops).on, ∃ i f, i < c.n ∧ (c.dev i).kind = .flipper f ∧
      ((run c init ops).devs i).enabled = true ∧
      ((x = f.main ∧ (((run c init ops).devs i).swFlipped = true ∨ ((run c init ops).devs i).repOn = true)) ∨
       (f.hold = some x ∧ ((run c init ops).devs i).swFlipped = true)) := by
    intro x hx
    obtain ⟨i, hi, f, hk, hen, ho⟩ := h x hx
    exact ⟨i, f, hi, hk, hen, ho⟩
  refine ⟨h1, ?_⟩
  intro hall
  apply List.eq_nil_iff_forall_not_mem.mpr
  intro x hx
  obtain ⟨i, f, hi, hk, hen, _⟩ := h1 x hx
  rw [hall i f hi hk] at hen
  exact Bool.noConfusion hen

/-- **rule_content_exact**: the rules carry exactly the configured settings.  `effTable` is the platform table as written:
every row with its settings `[invert, debounce, pulse ms, pulse power, hold power, recycle, delay, hardware repulse, repulse
debounce]` as `AutofireCoil.enable` / the `Flipper._enable_*_rule` methods select them from the overwrites and the defaults
(`autofireEntry`, `flipperSpecs`), a power-scaled pulse being the base times the flipper power setting *sampled when the device
was enabled* (`DSt.factor`; a later change of the setting does not rewrite the rule - as in the code).  In every reachable state
each rule of an enabled device is in the table with exactly these settings, and every row is such a rule. -/
theorem rule_content_exact (c : Cfg) (hw : WF c) (ops : List Op) :
    (∀ i, i < c.n → ((run c init ops).devs i).enabled = true → ∀ e ∈ entriesOf (c.dev i),
      scaleEntry ((run c init ops).devs i).factor e ∈ effTable c (run c init ops)) ∧
    (∀ r ∈ effTable c (run c init ops), ∃ i, i < c.n ∧ ((run c init ops).devs i).enabled = true ∧
      ∃ e ∈ entriesOf (c.dev i), r = scaleEntry ((run c init ops).devs i).factor e) := by
  have h := inv_run hw ops init (inv_init c)
  generalize run c init ops = s at h
  constructor
  · intro i hi hen e he
    rw [mem_effTable]
    exact ⟨e, h.complete i hi hen e he, by rw [ownerFactor_eq hw s i hi hen e he c.n hi (Nat.le_refl _)]⟩
  · intro r hr
    rw [mem_effTable] at hr
    obtain ⟨e, he, rfl⟩ := hr
    obtain ⟨i, hi, hen, hei⟩ := h.sound e he
    exact ⟨i, hi, hen, e, hei, by rw [ownerFactor_eq hw s i hi hen e hei c.n hi (Nat.le_refl _)]⟩


/-- **eos_manager_refines_source**: the five handlers of `SoftwareEosRepulseManager` as *translated from the source*
(`Gen/RulesOps.lean`, regenerated on every check) do to the model state exactly what the hand model does: button pressed /
released (`fswDev … 0`), EOS closed for the debounce time (`fireEos`), EOS opened (`fswDev … 1 false`: repulse when the button
is held and the EOS was closed long enough - enable + `_enabled_by_repulse` with hold settings, a pulse without), and `stop()`
(the coil a repulse enabled is released, the flag cleared).  So `no_coil_energised_when_disabled` speaks about the source's
handlers: a change such as clearing `_enabled_by_repulse` when the EOS has closed again no longer type-checks here. -/
theorem eos_manager_refines_source (c : Cfg) (s : St) (i : Nat) (f : FCfg) (hk : (c.dev i).kind = .flipper f)
    (hen : (s.devs i).enabled = true) (hm : hasManager f = true) :
    ((s.devs i).actOn = false →
      RulesGen.applyMgr f i (upd s i { s.devs i with actOn := true })
        (RulesGen.genMgr f (s.devs i) Gen.RulesOps.mgr_button_active) = some (fswDev c s i 0 true)) ∧
    ((s.devs i).actOn = true →
      RulesGen.applyMgr f i (upd s i { s.devs i with actOn := false })
        (RulesGen.genMgr f (s.devs i) Gen.RulesOps.mgr_button_inactive) = some (fswDev c s i 0 false)) ∧
    (isDue (s.devs i).eosDue s.now = true →
      RulesGen.applyMgr f i (upd s i { s.devs i with eosDue := none })
        (RulesGen.genMgr f (s.devs i) Gen.RulesOps.mgr_eos_closed_long_enough) = some (fireEos s i)) ∧
    ((s.devs i).eosOn = true →
      RulesGen.applyMgr f i (upd s i { s.devs i with eosOn := false, eosSince := s.now, eosDue := none })
        (RulesGen.genMgr f (s.devs i) Gen.RulesOps.mgr_repulse_on_eos_open) = some (fswDev c s i 1 false)) ∧
    RulesGen.applyMgr f i s (RulesGen.genMgr f (s.devs i) Gen.RulesOps.mgr_stop) =
      some (if (s.devs i).repOn then coilOff (upd s i { s.devs i with repOn := false }) f.main else s) :=
  ⟨RulesGen.button_active_refines c s i f hk hen hm, RulesGen.button_inactive_refines c s i f hk hen hm,
   RulesGen.eos_closed_long_enough_refines s i f, RulesGen.repulse_on_eos_open_refines c s i f hk hen hm,
   RulesGen.stop_refines s i f⟩

/-- **autofire_refines_source**: `AutofireCoil.enable` and `AutofireCoil.disable` as *translated from the source*
(`Gen/RulesOps.lean`, regenerated on every check) do to the model state exactly what the hand model's `enableDev` /
`disableDev` do for an autofire coil or kickback whose rule the platform accepts: `enable` of an enabled device does nothing;
otherwise exactly one row is written - by the plain rule setter when `coil_pulse_delay` is 0, by the delayed one otherwise -
whose settings are the ones `autofireEntry` selects (recycle: `coil_overwrite` first, else the coil's default with None read
as True; debounce: `switch_overwrite` first, else the switch's own, "normal" only; invert: `reverse_switch`; pulse ms / power
from `coil_overwrite`), and only then `_enabled` is set; `disable` always removes the re-enable delay and clears the rule iff
the device was enabled.  So `rules_exact` / `rule_content_exact` speak about the source's enable/disable: a
change such as `default_recycle in (True,)`, taking the switch's debounce before the overwrite, or clearing the rule without
resetting `_enabled` no longer type-checks here. -/
theorem autofire_refines_source (c : Cfg) (s : St) (i : Nat) (a : ACfg) (hk : (c.dev i).kind = .autofire a) :
    (installable (c.dev i) = true →
      RulesGen.applyAf (c.dev i) a i s (RulesGen.genAf a (s.devs i) Gen.RulesOps.af_enable) = some (enableDev c s i)) ∧
    RulesGen.applyAf (c.dev i) a i s (RulesGen.genAf a (s.devs i) Gen.RulesOps.af_disable) = some (disableDev c s i) :=
  ⟨RulesGen.af_enable_refines c s i a hk, RulesGen.af_disable_refines c s i a hk⟩

/-! ## the hypotheses are satisfiable: a dual-wound flipper with EOS switch and software repulse, an autofire with
timeout protection and a kickback that disables itself on its fired event -/

def exCfg : Cfg :=
  ⟨3, fun i =>
    if i = 0 then { kind := .flipper { act := some 0, eos := some 1, main := 0, hold := some 1, repulse := true },
                    enEv := [0], disEv := [1, 4] }
    else if i = 1 then { kind := .autofire { sw := 2, coil := 2, watch := 1000, maxHits := 2, disableMs := 500 },
                         enEv := [0], disEv := [1, 4] }
    else { kind := .autofire { sw := 3, coil := 4, fired := some 200 }, enEv := [0], disEv := [1, 4, 200] }⟩

/-- ball started: five rows; two hits trip the timeout protection (4 rows); the kickback fires and disables itself -/
example : ((run exCfg init [.ev 0]).table.map Entry.key) = [(0, 0), (1, 0), (0, 1), (2, 2), (3, 4)] := by decide
example : ((run exCfg init [.ev 0, .hit 1, .hit 1]).table.map Entry.key) = [(0, 0), (1, 0), (0, 1), (3, 4)] := by decide +kernel
example : ((run exCfg init [.ev 0, .hit 1, .hit 1, .advance 500]).table.map Entry.key) =
    [(0, 0), (1, 0), (0, 1), (3, 4), (2, 2)] := by decide +kernel
example : ((run exCfg init [.ev 0, .hit 1, .hit 1, .hit 2, .ev 1, .advance 500]).table) = [] := by decide +kernel
example : enables exCfg 1 (.advance 500) = false ∧ enables exCfg 1 (.hit 2) = false := by decide
/-- software flip energises the hold coil of the dual-wound flipper; ball_will_end releases it -/
example : (run exCfg init [.ev 0, .swFlip 0]).on = [1] ∧ (run exCfg init [.ev 0, .swFlip 0, .ev 1]).on = [] := by decide +kernel

/-- `autofire_refines_source` is not vacuous: device 1 of `exCfg` is an autofire coil whose rule is accepted, and running the
translated `enable` on the initial state writes its row (key (2, 2)) and sets `enabled` -/
example : (exCfg.dev 1).kind = .autofire { sw := 2, coil := 2, watch := 1000, maxHits := 2, disableMs := 500 } ∧
    installable (exCfg.dev 1) = true := ⟨rfl, by decide⟩
example : ((RulesGen.applyAf (exCfg.dev 1) { sw := 2, coil := 2, watch := 1000, maxHits := 2, disableMs := 500 } 1 init
      (RulesGen.genAf { sw := 2, coil := 2, watch := 1000, maxHits := 2, disableMs := 500 } (init.devs 1)
        Gen.RulesOps.af_enable)).map (fun s => (s.table.map Entry.key, (s.devs 1).enabled))) = some ([(2, 2)], true) := by
  decide +kernel

/-! ### software EOS repulse: the coil a repulse enabled stays owed to the flipper when the EOS closes again, and is released
when the flipper is disabled (the round-8 seeded change cleared the flag on the second closure) -/
def eosCfg : Cfg :=
  ⟨1, fun _ => { kind := .flipper { act := some 0, eos := some 1, main := 0, repulse := true, eosMs := 250, mainDefHold := some 125 },
                 enEv := [0], disEv := [1] }⟩

example : (run eosCfg init [.enable 0, .fsw 0 0 true, .fsw 0 1 true, .advance 500, .fsw 0 1 false]).on = [0] := by decide +kernel
example : (run eosCfg init [.enable 0, .fsw 0 0 true, .fsw 0 1 true, .advance 500, .fsw 0 1 false, .fsw 0 1 true, .advance 500]).on = [0] ∧
    ((run eosCfg init [.enable 0, .fsw 0 0 true, .fsw 0 1 true, .advance 500, .fsw 0 1 false, .fsw 0 1 true, .advance 500]).devs 0).eosLong = true := by decide +kernel
example : (run eosCfg init [.enable 0, .fsw 0 0 true, .fsw 0 1 true, .advance 500, .fsw 0 1 false, .fsw 0 1 true, .advance 500, .ev 1]).on = [] := by decide +kernel


/-- rule content: an autofire with reversed NC switch, overwrites and a delayed pulse; a flipper whose pulse follows the power
setting sampled at enable (10 ms × 0.8), not the later 1.2 -/
def contCfg : Cfg :=
  ⟨2, fun i =>
    if i = 0 then { kind := .autofire { sw := 2, coil := 0, reverse := true, owDeb := some true, defRecycle := some false,
                                         owPulse := some 30, defPulse := 20, owPower := some 500, delay := 50 } }
    else { kind := .flipper { act := some 0, main := 2, power := true, mainDefHold := some 125 } }⟩
example : (effTable contCfg (run contCfg init [.enable 0])) = [⟨2, 0, 5, [1, 1, 30, 500, 0, 0, 50, 0, 0], false⟩] := by decide +kernel
example : ((effTable contCfg (run contCfg init [.setting 800, .enable 1, .setting 1200])).map Entry.cont) =
    [[0, 0, 8, 1000, 126, 0, 0, 0, 0]] := by decide +kernel

end MpfVerif.C10
