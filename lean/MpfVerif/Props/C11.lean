import MpfVerif.Lemmas.Player
/-!
# C11 — player state is isolated per player and restored on their next turn

Model: `Model/Player.lean` (hand-written; tied to `mpf/core/player.py`, `mpf/devices/logic_blocks.py` and the game
mode by the correspondence run).  `Inv s`: the game mode's devices point nowhere or into the current player's
dictionary.  It holds initially and is preserved by every request (`inv_step`).
-/
namespace MpfVerif.C11
open MpfVerif.Player

/-- the pointer invariant holds after every history from power-up (so `frame` / `frame_run` apply to every reachable
state): the game mode's devices point nowhere or into the dictionary of the player who is up. -/
theorem pointer_invariant (c : Cfg) (ops : List Op) : Inv (run c {} ops) := by
  have : ∀ (s : St), Inv s → Inv (run c s ops) := by
    induction ops with
    | nil => exact fun s h => h
    | cons op rest ih => exact fun s h => ih _ (inv_step c s op h)
  exact this {} ⟨Or.inl rfl, fun h => absurd rfl h⟩

/-- **frame**: any request — variable set/add, counter hit, add player, ball drain with or without extra ball — leaves
the whole dictionary (variables *and* stored device state) of every player who is not up before or after it unchanged. -/
theorem frame (c : Cfg) (s : St) (op : Op) (h : Inv s) (q : Nat) (hq : q < s.players.length)
    (h1 : q ≠ s.cur) (h2 : q ≠ (step c s op).1.cur) (hg : (step c s op).1.players ≠ []) :
    (step c s op).1.players[q]? = s.players[q]? :=
  frame_step c s op h q hq h1 h2 hg

/-- **frame over histories**: whatever happens while player `q` is never up (other players' turns, their extra
balls, their scoring and progress, players joining), `q`'s dictionary at the end is exactly what it was. -/
theorem frame_run (c : Cfg) (q : Nat) (ops : List Op) (s : St) (h : Inv s) (hq : q < s.players.length)
    (hquiet : quiet c q s ops) : (run c s ops).players[q]? = s.players[q]? := by
  induction ops generalizing s with
  | nil => rfl
  | cons op rest ih =>
    obtain ⟨h1, h2, hg, hr⟩ := hquiet
    have hl := step_length_mono c s op hg
    rw [run, ih (step c s op).1 (inv_step c s op h) (by omega) hr]
    exact frame_step c s op h q hq h1 h2 hg

/-- **restore**: when a ball ends and the next ball starts (next player, next ball of the same player, or an extra
ball), the counter presents exactly the state object stored in the dictionary of the player who is now up — which by
`frame_run` is what it presented at the end of that player's previous ball. -/
theorem restore (c : Cfg) (s : St) (hne : s.players ≠ []) (b : Val)
    (hg : (step c s .drain).1.players ≠ [])
    (hb : get (varsOf s (step c s .drain).1.cur) stateKey = some b) :
    view (step c s .drain).1 = some b := by
  have key : ∀ (s0 : St) (i : Nat) (k : String) (v : Val), k ≠ stateKey → get (varsOf s0 i) stateKey = some b →
      view (modeStart (setOn s0 i k v).1 i) = some b := by
    intro s0 i k v hk hb0
    have hi : i < s0.players.length := by
      unfold varsOf at hb0
      cases hx : s0.players[i]? with
      | none => simp [hx, Player.get] at hb0
      | some m => exact (List.getElem?_eq_some_iff.mp hx).1
    have hv : varsOf (setOn s0 i k v).1 i = put (varsOf s0 i) k v := by
      unfold varsOf; rw [setOn_players, modify_get_same _ _ _ hi]; rfl
    have hget : get (varsOf (setOn s0 i k v).1 i) stateKey = some b := by
      rw [hv, get_put_other _ _ _ _ (Ne.symm hk)]; exact hb0
    unfold modeStart
    rw [hget]
    simp only [view]
    exact hget
  simp only [step, if_neg hne] at hg hb ⊢
  split
  · rename_i hx
    rw [if_pos hx] at hb
    rw [modeStart_cur, setOn_cur] at hb
    exact key _ _ _ _ (by decide) hb
  · rename_i hx
    rw [if_neg hx] at hb hg
    split
    · rename_i hy; rw [if_pos hy] at hg; exact absurd rfl hg
    · rename_i hy
      rw [if_neg hy] at hb
      rw [turnStart_cur] at hb
      unfold turnStart
      simp only []
      exact key { s with dev := none, cur := _ } _ _ _ (by decide) hb

/-- **fresh game**: a game started on an idle machine does not depend on anything an earlier game left behind, and
an accepted player joins with exactly the configured initial dictionary (index, number, the `player_vars` section,
score 0) while everybody else's dictionary stays as it is. -/
theorem fresh_game (c : Cfg) (s s' : St) (h : s.players = []) (h' : s'.players = []) :
    step c s .startGame = step c s' .startGame ∧
    (∀ t : St, (step c t .addPlayer).1.players = t.players ∨
               (step c t .addPlayer).1.players = t.players ++ [newVars c t.players.length]) ∧
    (∀ i k v, (k, v) ∈ c.initVars → (k, v) ∈ newVars c i) := by
  refine ⟨by simp [step, h, h'], fun t => ?_, fun i k v hm => by simp [newVars, hm]⟩
  simp only [step]
  split
  · exact Or.inl rfl
  · exact Or.inr rfl

/-- **event exactness**: assigning `v` to variable `k` of player number `num` stores `v`, touches no other variable,
and posts at most one `player_<k>` event; the event is posted iff the value changed or the variable is new (and the
value is an int or a string) and carries the new value, the previous value (0 for a new variable), the change
(difference for numbers, inequality otherwise) and the owner's number. -/
theorem var_event_exact (m : Vars) (num : Nat) (k : String) (v : Val) :
    get (setVar m num k v).1 k = some v ∧
    (∀ k2, k2 ≠ k → get (setVar m num k v).1 k2 = get m k2) ∧
    ((setVar m num k v).2 = [] ∨
     (setVar m num k v).2 = [⟨k, v, (get m k).getD (.int 0), changeOf v ((get m k).getD (.int 0)), num⟩]) ∧
    ((setVar m num k v).2 ≠ [] ↔
      ((truthy (changeOf v ((get m k).getD (.int 0))) = true ∨ get m k = none) ∧ isScalar v = true)) ∧
    (∀ a b : Int, v = .int a → get m k = some (.int b) → changeOf v ((get m k).getD (.int 0)) = .int (a - b)) := by
  refine ⟨get_put_same m k v, fun k2 h => get_put_other m k k2 v h, ?_, ?_, ?_⟩
  · unfold setVar; simp only []; split
    · exact Or.inr rfl
    · exact Or.inl rfl
  · unfold setVar; simp only []
    cases hg : get m k <;> cases hs : isScalar v <;>
      cases ht : truthy (changeOf v ((get m k).getD (.int 0))) <;> simp_all
  · intro a b hv hb; subst hv; simp [hb, changeOf]

/-- the hypotheses are satisfiable and the statements bite: two players, player 1 counts twice and scores, player 2
counts once; when player 1 is up again the counter shows 2 hits, player 2's dictionary still holds 1 hit -/
example :
    let c : Cfg := { initVars := [("pa", .int 5)], ballsPerGame := 2 }
    let s := run c {} [.startGame, .addPlayer, .hit, .hit, .add "score" 100, .drain, .hit, .drain]
    Inv s ∧ s.cur = 0 ∧ view s = some (.blk 2 true false) ∧
    get (varsOf s 1) stateKey = some (.blk 1 true false) ∧ get (varsOf s 0) "score" = some (.int 100) ∧
    get (varsOf s 1) "score" = some (.int 0) ∧ get (varsOf s 1) "pa" = some (.int 5) := by decide

end MpfVerif.C11
