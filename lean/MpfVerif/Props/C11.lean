import MpfVerif.Lemmas.Player
/-!
# C11 — player state is isolated per player and restored on their next turn

Model: `Model/Player.lean` (hand-written; tied to `mpf/core/player.py`, `mpf/devices/logic_blocks.py` and the game
mode by the correspondence run).  `Inv s`: the game mode's devices point nowhere or into the current player's
dictionary.  It holds initially and is preserved by every request (`inv_step`).
-/
namespace MpfVerif.C11
open MpfVerif.Player

/-- the pointer invariant holds after every history from power-up (so `frame` / `frame_run` apply to every reachable
state): the game mode's devices point nowhere or into the dictionary of the player who is up. -/
theorem pointer_invariant (c : Cfg) (ops : List Op) : Inv (run c {} ops) := by
  have : ∀ (s : St), Inv s → Inv (run c s ops) := by
    induction ops with
    | nil => exact fun s h => h
    | cons op rest ih => exact fun s h => ih _ (inv_step c s op h)
  exact this {} ⟨Or.inl rfl, fun h => absurd rfl h⟩

/-- **a start request binds to the current player or is refused**, at any position of the game: after `modeStart` the
pointer is unchanged (no game, or the mode already runs) or it points at the player who is up *now* — never at the
player of an earlier turn; and no other player's dictionary is touched by it. -/
theorem mode_start_binds_current (c : Cfg) (s : St) :
    ((step c s .modeStart).1 = s ∨ (step c s .modeStart).1.dev = some s.cur) ∧
    (step c s .modeStart).1.cur = s.cur ∧
    ∀ q, q ≠ s.cur → (step c s .modeStart).1.players[q]? = s.players[q]? := by
  simp only [step]
  split
  · exact ⟨Or.inl rfl, rfl, fun _ _ => rfl⟩
  · split
    · exact ⟨Or.inl rfl, rfl, fun _ _ => rfl⟩
    · exact ⟨Or.inr (modeStart_dev _ _ _), modeStart_cur _ _ _, fun q hq => modeStart_other _ _ _ _ hq⟩

/-- when a turn ends the pointer is dropped or handed to the player who is up next — also when a start request arrived
after the ball had ended but before the turn ended (`drainPre`): no mode keeps running bound to the previous player. -/
theorem turn_end_rebinds (c : Cfg) (s : St) (h : Inv s) (op : Op) (_hop : op = .drain ∨ op = .drainPre) :
    (step c s op).1.dev = none ∨ (step c s op).1.dev = some (step c s op).1.cur :=
  (inv_step c s op h).1

/-- **frame**: any request — variable set/add, any control event of any device (counter, accrual and sequence with their
list-valued / integer progress, shots, flags, achievements, timer start/stop/pause/add/subtract/jump/reset/restart),
shot-group rotation, the passing of any amount of time (running timers tick, timed pauses end), machine-variable
set/add, add player, mode stop/start, ball drain with or without extra ball — leaves the whole dictionary (variables
*and* stored device state) of every player who is not up before or after it unchanged.  The only request that is meant
to write to somebody else, a `variable_player` entry with an explicit `player:`, is excluded for exactly that player (`h3`). -/
theorem frame (c : Cfg) (s : St) (op : Op) (h : Inv s) (q : Nat) (hq : q < s.players.length)
    (h1 : q ≠ s.cur) (h2 : q ≠ (step c s op).1.cur) (hg : (step c s op).1.players ≠ [])
    (h3 : explicitTarget op ≠ some q) :
    (step c s op).1.players[q]? = s.players[q]? :=
  frame_step c s op h q hq h1 h2 hg h3

/-- **frame over histories**: whatever happens while player `q` is never up (other players' turns, their extra
balls, their scoring and progress, time passing with their timers running or paused, players joining), `q`'s
dictionary at the end is exactly what it was. -/
theorem frame_run (c : Cfg) (q : Nat) (ops : List Op) (s : St) (h : Inv s) (hq : q < s.players.length)
    (hquiet : quiet c q s ops) : (run c s ops).players[q]? = s.players[q]? := by
  induction ops generalizing s with
  | nil => rfl
  | cons op rest ih =>
    obtain ⟨h1, h2, hg, h3, hr⟩ := hquiet
    have hl := step_length_mono c s op hg
    rw [run, ih (step c s op).1 (inv_step c s op h) (by omega) hr]
    exact frame_step c s op h q hq h1 h2 hg h3

/-- the ball end proper (`drainStep`: the game mode is not in a held stop, or the hold has just been released): each
device presents `load` of what the player now up has stored, or its fresh state -/
theorem restore_drainStep (c : Cfg) (ha : c.autoStart = true) (hk : KeysOK c) (s : St) (h : Inv s) (hne : s.players ≠ [])
    (hg : (drainStep c s).1.players ≠ []) (d : Dev) (hd : d ∈ c.devs) :
    view (drainStep c s).1 d = some (loaded d (varsOf s (drainStep c s).1.cur)) := by
  have hcur := h.2 hne
  have hlen : 0 < s.players.length := by
    cases hp : s.players with
    | nil => exact absurd hp hne
    | cons _ _ => simp
  have key : ∀ (s0 : St) (i : Nat) (k : String) (v : Val), i < s0.players.length → k ≠ d.key →
      view (modeStart c (setOn s0 i k v).1 i) d = some (loaded d (varsOf s0 i)) := by
    intro s0 i k v hi hkd
    have hv : varsOf (setOn s0 i k v).1 i = put (varsOf s0 i) k v := by
      unfold varsOf; rw [setOn_players, modify_get_same _ _ _ hi]; rfl
    have hi2 : i < (setOn s0 i k v).1.players.length := by rw [setOn_players, modify_length]; exact hi
    have hm : varsOf (modeStart c (setOn s0 i k v).1 i) i = loadAll c.devs (put (varsOf s0 i) k v) := by
      unfold varsOf modeStart
      simp only []
      rw [modify_get_same _ _ _ hi2]
      unfold varsOf at hv
      rw [hv]; rfl
    show (match (modeStart c (setOn s0 i k v).1 i).dev with
      | none => none
      | some p => get (varsOf (modeStart c (setOn s0 i k v).1 i) p) d.key) = _
    rw [modeStart_dev]
    simp only []
    rw [hm, loadAll_get _ _ hk.1 d hd]
    unfold loaded
    rw [get_put_other _ _ _ _ (Ne.symm hkd)]
  simp only [drainStep, if_neg hne, ballStart, ha, if_true] at hg ⊢
  split
  · rw [modeStart_cur, setOn_cur]
    exact key _ _ _ _ hcur (Ne.symm (hk.2 d hd).2)
  · rename_i hx
    rw [if_neg hx] at hg
    split
    · rename_i hy; rw [if_pos hy] at hg; exact absurd rfl hg
    · rw [turnStart_cur]
      unfold turnStart
      simp only [ballStart, ha, if_true]
      refine key { s with dev := none, cur := _ } _ _ _ ?_ (Ne.symm (hk.2 d hd).1)
      show (if s.cur + 1 < s.players.length then s.cur + 1 else 0) < s.players.length
      split <;> omega

/-- **restore**, for every persisting device at once: when a ball ends (the game mode not being in a held stop) and the
next ball starts (next player, next ball of the same player, or an extra ball), each device of the game mode presents
`load` of exactly the state stored under its key in the dictionary of the player who is now up — which by `frame_run` is
what it presented at the end of that player's previous ball — and the fresh state if that player never had it.  (`load`
is the identity for logic blocks, shot/profile states and persisted enable flags; the documented started→stopped rule
for achievements; the start value for timers.) -/
theorem restore (c : Cfg) (ha : c.autoStart = true) (hk : KeysOK c) (s : St) (h : Inv s) (hne : s.players ≠ [])
    (hh : s.hold = false) (hg : (step c s .drain).1.players ≠ []) (d : Dev) (hd : d ∈ c.devs) :
    view (step c s .drain).1 d = some (loaded d (varsOf s (step c s .drain).1.cur)) := by
  have e : step c s .drain = drainStep c s := by simp [step, hh]
  rw [e] at hg ⊢
  exact restore_drainStep c ha hk s h hne hg d hd

/-- **a held stop keeps the turn**: while the game mode is stopping with its `mode_<n>_stopping` queue event held (the
stop was requested before the ball drained), a ball end changes nothing but the fact that it is waiting: no player's
dictionary, not the player who is up, not the binding of the devices — the game does not move on to the next player
while the old mode is still active; and (over all histories, by `pointer_invariant`) the devices of a mode in a held
stop still point at the player who is up.  Stop and start requests meanwhile do nothing. -/
theorem held_stop_keeps_turn (c : Cfg) (s : St) (hh : s.hold = true) :
    (∀ op, op = .drain ∨ op = .drainPre →
      (step c s op).1.players = s.players ∧ (step c s op).1.cur = s.cur ∧ (step c s op).1.dev = s.dev ∧
      (step c s op).1.hold = true ∧ (step c s op).1.ending = true ∧ (step c s op).2 = []) ∧
    step c s .modeStop = (s, []) ∧ (s.dev ≠ none → step c s .modeStart = (s, []) ∨ s.players = []) := by
  refine ⟨fun op hop => ?_, by simp [step, hh], fun hd => ?_⟩
  · rcases hop with e | e <;> subst e <;> simp [step, hh]
  · cases hdev : s.dev with
    | none => exact absurd hdev hd
    | some p => by_cases hp : s.players = []
                · exact Or.inr hp
                · left; simp [step, hp, hdev]

/-- the hold invariant over all histories from power-up: a held stop belongs to a running mode (so with
`pointer_invariant`: its devices point at the player who is up), and a ball end only ever waits behind a held stop. -/
theorem hold_invariant (c : Cfg) (ops : List Op) :
    ((run c {} ops).hold = true → (run c {} ops).dev = some (run c {} ops).cur) ∧
    ((run c {} ops).ending = true → (run c {} ops).hold = true) := by
  have : ∀ (s : St), HoldInv s → HoldInv (run c s ops) := by
    induction ops with
    | nil => exact fun s h => h
    | cons op rest ih => exact fun s h => ih _ (holdInv_step c s op h)
  have hh := this {} ⟨fun h => (by cases h), fun h => (by cases h)⟩
  have hi := pointer_invariant c ops
  refine ⟨fun h => ?_, hh.2⟩
  rcases hi.1 with e | e
  · exact absurd e (hh.1 h)
  · exact e

/-- **the release finishes the stop, then the ball ends**: releasing the held queue event stops the mode (nothing points
into any player any more); a ball end that was waiting behind it then takes place exactly as a ball end of a stopped
mode would — in particular (`restore_after_release`) the next ball's devices are bound to and loaded from the player
who is then up, never the previous one. -/
theorem release_finishes_stop (c : Cfg) (s : St) (hh : s.hold = true) :
    (s.ending = false → (step c s .release).1.dev = none ∧ (step c s .release).1.players = s.players ∧
       (step c s .release).1.cur = s.cur ∧ (step c s .release).1.hold = false ∧ (step c s .release).2 = []) ∧
    (s.ending = true → step c s .release = step c { s with hold := false, ending := false, dev := none } .drain) := by
  refine ⟨fun he => by simp [step, hh, he], fun he => by simp [step, hh, he]⟩

/-- **restore after a released hold**: when the ball end that waited behind a held stop takes place, each device of the
game mode presents `load` of what the player who is now up has stored under its key (or its fresh state) — the previous
player's state is not carried along although their mode was still active when the ball drained. -/
theorem restore_after_release (c : Cfg) (ha : c.autoStart = true) (hk : KeysOK c) (s : St) (h : Inv s)
    (hne : s.players ≠ []) (hh : s.hold = true) (he : s.ending = true)
    (hg : (step c s .release).1.players ≠ []) (d : Dev) (hd : d ∈ c.devs) :
    view (step c s .release).1 d = some (loaded d (varsOf s (step c s .release).1.cur)) := by
  have e : step c s .release = drainStep c { s with hold := false, ending := false, dev := none } := by
    simp [step, hh, he]
  rw [e] at hg ⊢
  exact restore_drainStep c ha hk { s with hold := false, ending := false, dev := none } ⟨Or.inl rfl, h.2⟩ hne hg d hd

/-- **fresh game**: a game started on an idle machine does not depend on anything an earlier game left behind, and
an accepted player joins with exactly the configured initial dictionary (index, number, the `player_vars` section,
score 0) while everybody else's dictionary stays as it is; and every device whose key is not among those variables
starts that player from its fresh state (with `restore`: that is what it presents at the player's first ball). -/
theorem fresh_game (c : Cfg) (s s' : St) (h : s.players = []) (h' : s'.players = []) :
    ((step c s .startGame).1.players = (step c s' .startGame).1.players ∧
     (step c s .startGame).1.cur = (step c s' .startGame).1.cur ∧
     (step c s .startGame).2 = (step c s' .startGame).2) ∧
    (∀ t : St, (step c t .addPlayer).1.players = t.players ∨
               (step c t .addPlayer).1.players = t.players ++ [newVars c t.players.length]) ∧
    (∀ i k v, (k, v) ∈ c.initVars → (k, v) ∈ newVars c i) ∧
    (∀ (d : Dev) i, get (newVars c i) d.key = none → loaded d (newVars c i) = d.fresh) := by
  refine ⟨by cases ha : c.autoStart <;> simp [step, h, h', turnStart, ballStart, ballStartEvs, modeStartEvs, modeStart, setOn, varsOf, ha], fun t => ?_, fun i k v hm => by simp [newVars, hm],
    fun d i hn => by unfold loaded; rw [hn]⟩
  simp only [step]
  split
  · exact Or.inl rfl
  · exact Or.inr rfl

/-- **event exactness**: assigning `v` to variable `k` of player number `num` stores `v`, touches no other variable,
and posts at most one `player_<k>` event; the event is posted iff the value changed or the variable is new (and the
value is an int or a string) and carries the new value, the previous value (0 for a new variable), the change
(difference for numbers, inequality otherwise) and the owner's number. -/
theorem var_event_exact (m : Vars) (num : Nat) (k : String) (v : Val) :
    get (setVar m num k v).1 k = some v ∧
    (∀ k2, k2 ≠ k → get (setVar m num k v).1 k2 = get m k2) ∧
    ((setVar m num k v).2 = [] ∨
     (setVar m num k v).2 = [⟨k, v, (get m k).getD (.int 0), changeOf v ((get m k).getD (.int 0)), num⟩]) ∧
    ((setVar m num k v).2 ≠ [] ↔
      ((truthy (changeOf v ((get m k).getD (.int 0))) = true ∨ get m k = none) ∧ isScalar v = true)) ∧
    (∀ a b : Int, v = .int a → get m k = some (.int b) → changeOf v ((get m k).getD (.int 0)) = .int (a - b)) := by
  refine ⟨get_put_same m k v, fun k2 h => get_put_other m k k2 v h, ?_, ?_, ?_⟩
  · unfold setVar; simp only []; split
    · exact Or.inr rfl
    · exact Or.inl rfl
  · unfold setVar; simp only []
    cases hg : get m k <;> cases hs : isScalar v <;>
      cases ht : truthy (changeOf v ((get m k).getD (.int 0))) <;> simp_all
  · intro a b hv hb; subst hv; simp [hb, changeOf]

/-- **restore when the mode is started by request** (a game mode without `ball_started` among its start events, or one
restarted in the middle of a ball): every device presents `load` of exactly what the player who is up has stored under
its key — whatever happened in between, and however long ago that was stored — or its fresh state. -/
theorem restore_on_mode_start (c : Cfg) (hk : KeysOK c) (s : St) (hne : s.players ≠ []) (hoff : s.dev = none)
    (hcur : s.cur < s.players.length) (d : Dev) (hd : d ∈ c.devs) :
    view (step c s .modeStart).1 d = some (loaded d (varsOf s s.cur)) := by
  simp only [step, if_neg hne, hoff]
  have hm : varsOf (modeStart c s s.cur) s.cur = loadAll c.devs (varsOf s s.cur) := by
    unfold varsOf modeStart
    simp only []
    rw [modify_get_same _ _ _ hcur]; rfl
  show (match (modeStart c s s.cur).dev with
    | none => none
    | some p => get (varsOf (modeStart c s s.cur) p) d.key) = _
  rw [modeStart_dev]
  simp only []
  rw [hm, loadAll_get _ _ hk.1 d hd]

/-- **time**: while no game mode runs (between a ball's end and the next start of the mode, after a stop request, after
the game) the passing of any amount of time changes nothing at all — no timer of a stopped mode ticks or resumes from a
pause; while it runs, time changes the dictionary of the player who is up and nobody else's, and neither the pointer
nor the turn, and every `player_<mode>_<timer>_tick` event a tick posts carries the number of the player who is up. -/
theorem time_passing (c : Cfg) (s : St) (n : Nat) :
    (s.dev = none → step c s (.wait n) = (s, [])) ∧
    (Inv s → ∀ q, q ≠ s.cur → (step c s (.wait n)).1.players[q]? = s.players[q]?) ∧
    (step c s (.wait n)).1.cur = s.cur ∧ (step c s (.wait n)).1.dev = s.dev ∧
    (Inv s → ∀ e ∈ (step c s (.wait n)).2, e.num = s.cur + 1) := by
  refine ⟨fun h => by simp [step, h], fun h q hq => ?_, ?_, ?_, fun h => ?_⟩
  · simp only [step]
    split
    · rfl
    · rename_i p hp
      have := dev_eq_cur h hp
      subst this
      exact modify_get_other _ _ _ _ hq
  · simp only [step]; split <;> rfl
  · simp only [step]; split <;> rfl
  · simp only [step]
    split
    · intro e he; simp at he
    · rename_i p hp
      have := dev_eq_cur h hp
      subst this
      exact elapseEvs_num _ _ _ _ _

/-- **device-variable events belong to the player who is up**: every `player_<var>` event posted because a device wrote
its state (a timer's tick variable: at load, on add / subtract / jump / reset, on every tick) or because a ball ended and
the next one started (`ball`, `extra_balls`, the devices' loads) carries the number of the player who is up when the
request has been handled — for time passing, control events and start requests that is the player who was up before. -/
theorem device_events_owner (c : Cfg) (s : St) (h : Inv s) (op : Op)
    (hop : (∃ n, op = .wait n) ∨ (∃ d code, op = .dev d code) ∨ op = .modeStart ∨ op = .drain ∨ op = .release) :
    ∀ e ∈ (step c s op).2, e.num = (step c s op).1.cur + 1 := by
  rcases hop with ⟨n, e⟩ | ⟨d, code, e⟩ | e | e | e <;> subst e
  · rw [(time_passing c s n).2.2.1]; exact (time_passing c s n).2.2.2.2 h
  · simp only [step]
    split
    · intro e he; simp at he
    · rename_i p hp
      have := dev_eq_cur h hp
      subst this
      split
      · intro e he; simp at he
      · split
        · intro e he; simp at he
        · exact devEv_num _ _ _ _
  · simp only [step]
    split
    · intro e he; simp at he
    · split
      · intro e he; simp at he
      · rw [modeStart_cur]; exact loadEvs_num _ _ _
  · simp only [step]
    split
    · intro e he; simp at he
    · exact drainStep_num c s
  · simp only [step]
    split
    · split
      · exact drainStep_num c _
      · intro e he; simp at he
    · intro e he; simp at he

/-- **a stopped mode is inert**: after a stop request (not held), after the release of a held stop, after the game has
ended, and after a ball has drained when the mode does not start with the ball, nothing points into any player any more, so (by `time_passing`) no amount of time
changes anybody's variables — in particular a timer that was in a timed pause when its mode stopped cannot come back
to life bound to the previous player. -/
theorem stopped_mode_is_inert (c : Cfg) (s : St) (n : Nat) :
    (∀ op, (op = .modeStop ∧ s.hold = false) ∨ op = .endGame ∨ (op = .release ∧ s.hold = true ∧ s.ending = false) ∨
        (op = .drain ∧ c.autoStart = false ∧ s.players ≠ [] ∧ s.hold = false) →
      (step c s op).1.dev = none ∧ step c (step c s op).1 (.wait n) = ((step c s op).1, [])) := by
  intro op hop
  have hd : (step c s op).1.dev = none := by
    rcases hop with ⟨e, hh⟩ | e | ⟨e, hh, he⟩ | ⟨e, ha, hne, hh⟩ <;> subst e
    · simp [step, hh]
    · rfl
    · simp [step, hh, he]
    · have e : step c s .drain = drainStep c s := by simp [step, hh]
      rw [e]
      simp only [drainStep, if_neg hne, turnStart, ballStart, ha]
      split
      · rfl
      · split <;> rfl
  exact ⟨hd, (time_passing c _ n).1 hd⟩

/-- **explicit target**: a `variable_player` entry that names player `p+1` (who exists) writes to exactly that player:
the stored value, the single event (with *that* player's number, previous value and change) are those of an assignment
in `p`'s dictionary, and every other player — including the one who is up — keeps their dictionary. -/
theorem explicit_target_exact (c : Cfg) (s : St) (p : Nat) (k : String) (v : Val) (hp : p < s.players.length) :
    (step c s (.setP p k v)).2 = (setVar (varsOf s p) (p + 1) k v).2 ∧
    (step c s (.setP p k v)).1.players[p]? = some (setVar (varsOf s p) (p + 1) k v).1 ∧
    ∀ q, q ≠ p → (step c s (.setP p k v)).1.players[q]? = s.players[q]? := by
  have hne : s.players ≠ [] := by intro e; simp [e] at hp
  have ht : targetOf s p = p := by simp [targetOf, hp]
  simp only [step, if_neg hne, ht]
  refine ⟨rfl, ?_, fun q hq => ?_⟩
  · rw [setOn_players, modify_get_same _ _ _ hp]; rfl
  · rw [setOn_players]; exact modify_get_other _ _ _ _ hq

/-- **machine scope**: `set_machine` / `add_machine` entries change no player's dictionary and post no player event;
and no other request changes a machine variable. -/
theorem machine_scope (c : Cfg) (s : St) (k : String) (v : Val) (d : Int) :
    (step c s (.setMachine k v)).1.players = s.players ∧ (step c s (.setMachine k v)).2 = [] ∧
    (step c s (.addMachine k d)).1.players = s.players ∧ (step c s (.addMachine k d)).2 = [] ∧
    (∀ op, (∀ k v, op ≠ .setMachine k v) → (∀ k d, op ≠ .addMachine k d) → (step c s op).1.machine = s.machine) := by
  refine ⟨?_, ?_, ?_, ?_, ?_⟩
  · simp only [step]; split <;> rfl
  · simp only [step]; split <;> rfl
  · simp only [step]; split
    · rfl
    · split <;> rfl
  · simp only [step]; split
    · rfl
    · split <;> rfl
  · intro op h1 h2
    cases op with
    | setMachine k v => exact absurd rfl (h1 k v)
    | addMachine k d => exact absurd rfl (h2 k d)
    | startGame =>
      cases ha : c.autoStart <;> simp only [step] <;> split <;> simp [turnStart, ballStart, modeStart, setOn, ha]
    | drain =>
      cases ha : c.autoStart <;> simp only [step, drainStep] <;> repeat' split
      all_goals simp [turnStart, ballStart, modeStart, setOn, ha]
    | release =>
      cases ha : c.autoStart <;> simp only [step, drainStep] <;> repeat' split
      all_goals simp [turnStart, ballStart, modeStart, setOn, ha]
    | drainPre =>
      cases ha : c.autoStart <;> simp only [step] <;> repeat' split
      all_goals simp [turnStart, ballStart, modeStart, setOn, ha]
    | _ => simp only [step] <;> repeat' split
           all_goals simp [modeStart, setOn]

/-- the timer of the correspondence run (`timerDev`, the rules of `mpf/devices/timer.py`): stopped, or paused until it is
started again, with no resume pending, it keeps its ticks however much time passes; and whatever its configuration, a
load gives the start value (a timer does not carry ticks over to the player's next ball — its variable does, until the
mode starts again). -/
theorem stopped_timer_keeps_ticks (t : TimerCfg) (key : String) (l : Loc) (v : Int) (hr : l.run = false) (hp : l.pause = 0) :
    (timerDev key t).tick l (.int v) = (l, .int v) ∧ ∀ x, (timerDev key t).load x = .int t.start := by
  refine ⟨?_, fun _ => rfl⟩
  show tmTick t l (.int v) = (l, .int v)
  simp [tmTick, hr, hp]

/-- the hypotheses are satisfiable and the statements bite: two players, a shot (3 states) and an achievement-like
device whose `load` turns 1 into 2; player 1 advances the shot twice and scores, player 2 advances it once; when
player 1 is up again the shot shows 2, the other device was transformed by `load`, player 2's dictionary still holds 1 -/
example :
    let shot : Dev := plainDev "shot_sh1" (.int 0) id fun _ v => match v with | .int s => .int (s + 1) | x => x
    let ach : Dev := plainDev "ach" (.int 1) (fun v => if v = .int 1 then .int 2 else v) fun _ v => v
    let c : Cfg := { initVars := [("pa", .int 5)], ballsPerGame := 2, devs := [shot, ach] }
    let s := run c {} [.startGame, .addPlayer, .dev 0 0, .dev 0 0, .add "score" 100, .drain, .dev 0 0, .drain]
    Inv s ∧ s.cur = 0 ∧ view s shot = some (.int 2) ∧ view s ach = some (.int 2) ∧
    get (varsOf s 1) "shot_sh1" = some (.int 1) ∧ get (varsOf s 1) "ach" = some (.int 1) ∧
    get (varsOf s 0) "score" = some (.int 100) ∧ get (varsOf s 1) "score" = some (.int 0) := by decide

/-- list-valued progress, timers and time: a game mode that is started by request holds an accrual (3 steps) and a
timer (running from the start, a tick every 4 units, a timed pause of 8 units).  Player 1 lets it tick twice, pauses it,
collects step 0 and drains inside the pause window; 20 units pass and player 2 is given 50 points by an explicitly
targeted entry of player 1's... turn — player 1's ticks stay 2 and the accrual list stays [1,0,0] (nothing resumes);
player 2 starts the mode, collects step 1 and gets one tick; back at player 1 the accrual shows [1,0,0] again, the timer
starts from its start value, and player 2's dictionary holds [0,1,0] and 1 tick. -/
example :
    let acc : Dev := plainDev "ap_state" (.ablk [false, false, false] true false) id fun code v => accHit code v
    let tm : Dev := timerDev "m1_tm_tick" ⟨0, true, none, 4, 8⟩
    let c : Cfg := { ballsPerGame := 3, devs := [acc, tm], autoStart := false }
    let s1 := run c {} [.startGame, .addPlayer, .modeStart, .wait 9, .dev 1 5, .dev 0 0, .drain]
    let s2 := run c s1 [.wait 20, .setP 0 "score" (.int 50)]
    let s3 := run c s2 [.modeStart, .dev 0 1, .wait 4, .drain, .modeStart]
    Inv s3 ∧ s1.cur = 1 ∧ s1.dev = none ∧
    get (varsOf s1 0) "m1_tm_tick" = some (.int 2) ∧ get (varsOf s2 0) "m1_tm_tick" = some (.int 2) ∧
    get (varsOf s2 0) "ap_state" = some (.ablk [true, false, false] true false) ∧
    get (varsOf s2 0) "score" = some (.int 50) ∧ get (varsOf s2 1) "score" = some (.int 0) ∧
    s3.cur = 0 ∧ view s3 acc = some (.ablk [true, false, false] true false) ∧ view s3 tm = some (.int 0) ∧
    get (varsOf s3 1) "ap_state" = some (.ablk [false, true, false] true false) ∧
    get (varsOf s3 1) "m1_tm_tick" = some (.int 1) := by decide

/-- a held stop across a drain: player 1 advances a shot, the game mode is asked to stop with its `mode_<n>_stopping`
queue event held, the ball drains — player 1 is still up, the mode still bound to them, a further hit still counts for
player 1; on the release the mode stops, the ball ends, player 2 is up with a fresh shot and player 1 keeps 2. -/
example :
    let shot : Dev := plainDev "shot_sh1" (.int 0) id fun _ v => match v with | .int s => .int (s + 1) | x => x
    let c : Cfg := { initVars := [("pa", .int 5)], ballsPerGame := 2, devs := [shot] }
    let s1 := run c {} [.startGame, .addPlayer, .dev 0 0, .modeStopHold, .drain]
    let s2 := run c s1 [.dev 0 0, .modeStop, .modeStart]
    let s3 := run c s2 [.release]
    s1.hold = true ∧ s1.ending = true ∧ s1.cur = 0 ∧ s1.dev = some 0 ∧ view s2 shot = some (.int 2) ∧ s2.dev = some 0 ∧
    Inv s3 ∧ s3.cur = 1 ∧ s3.dev = some 1 ∧ s3.hold = false ∧ view s3 shot = some (.int 0) ∧
    get (varsOf s3 0) "shot_sh1" = some (.int 2) := by decide

/-- device-variable events are really produced: a timer running from the start (a tick every 4 units) posts its load
event (new variable, value 0) with the ball start and one `player_m1_tm_tick` event per tick, value / previous value /
change / the number of the player who is up; after the turn change they carry player 2's number. -/
example :
    let tm : Dev := timerDev "m1_tm_tick" ⟨0, true, none, 4, 8⟩
    let c : Cfg := { ballsPerGame := 3, devs := [tm] }
    let s1 := run c {} [.startGame, .addPlayer]
    (step c {} .startGame).2.getLast? = some ⟨"m1_tm_tick", .int 0, .int 0, .int 0, 1⟩ ∧
    (step c s1 (.wait 9)).2 = [⟨"m1_tm_tick", .int 1, .int 0, .int 1, 1⟩, ⟨"m1_tm_tick", .int 2, .int 1, .int 1, 1⟩] ∧
    (step c s1 (.dev 0 1)).2 = [⟨"m1_tm_tick", .int 7, .int 0, .int 7, 1⟩] ∧
    (step c (run c s1 [.drain]) (.wait 4)).2 = [⟨"m1_tm_tick", .int 1, .int 0, .int 1, 2⟩] := by decide


end MpfVerif.C11
