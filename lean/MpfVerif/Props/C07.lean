import MpfVerif.Lemmas.Mode
/-!
# C07 — Mode lifecycle is well-formed and leaves nothing behind

Property theorems only, about `Model/Mode.lean`.  `run (init cfg) ops` is the state after an arbitrary sequence of
requests (`start`/`stop`, accepted or turned down), scheduler choices (which pending lifecycle callback runs next) and
user registrations, for arbitrary mode configurations `cfg`; steps that are not enabled are skipped.
-/
namespace MpfVerif.C07
open MpfVerif.Mode

/-- Clause 1: for every mode the lifecycle events posted so far are a prefix of
(will_start starting started will_stop stopping stopped)*, and the position reached is the one the mode's flags say
(idle 0, starting 2, active 3, stopping 5) — after ANY sequence of ops. -/
theorem lifecycle_order (cfg : Nat → Cfg) (ops : List Op) (m : Nat) :
    dfa 0 (proj m (run (init cfg) ops).log) = some (pos ((run (init cfg) ops).modes m)) :=
  (run_inv _ ops (inv_init cfg)).life m

/-- Clause 2: `active_modes` contains exactly the modes whose active flag is set, each once, strictly sorted by
(priority, name) descending — after ANY sequence of ops. -/
theorem active_list_exact (cfg : Nat → Cfg) (ops : List Op) :
    let s := run (init cfg) ops
    (∀ m, m ∈ s.act ↔ (s.modes m).active = true) ∧ s.act.Nodup ∧
      s.act.Pairwise (fun a b => before s.modes a b = true) := by
  intro s
  have hI := run_inv _ ops (inv_init cfg)
  refine ⟨hI.mem, ?_, hI.sorted⟩
  refine List.Pairwise.imp ?_ hI.sorted
  intro a b hab heq
  rw [heq, before_irrefl] at hab
  cases hab

/-- the flags exclude each other: a mode is never active and starting at once, and stopping only while active -/
theorem flags_consistent (cfg : Nat → Cfg) (ops : List Op) (m : Nat) :
    let s := run (init cfg) ops
    ((s.modes m).active = true → (s.modes m).starting = false) ∧ ((s.modes m).stopping = true → (s.modes m).active = true) :=
  ⟨(run_inv _ ops (inv_init cfg)).excl m, (run_inv _ ops (inv_init cfg)).stopAct m⟩

/-- Clause 3: whatever happened before, when a mode's stop completes (`_mode_stopped_callback` runs) and no newer
start of that mode is under way, no event handler, switch handler or delay owned by that mode is left. -/
theorem registries_restored (cfg : Nat → Cfg) (ops : List Op) (m : Nat) (s' : St)
    (h : step (run (init cfg) ops) (.stoppedCb m) = some s')
    (ha : ((run (init cfg) ops).modes m).active = false) (hs : ((run (init cfg) ops).modes m).starting = false) :
    (∀ e ∈ s'.bus, e.owner ≠ m) ∧ (∀ e ∈ s'.sw, e.owner ≠ m) ∧ (∀ e ∈ s'.dl, e.owner ≠ m) := by
  have hI := run_inv _ ops (inv_init cfg)
  simp only [step] at h
  split at h
  · cases h
  · cases h
    refine ⟨?_, ?_, ?_⟩ <;> dsimp only <;> intro e he heq <;> simp only [List.mem_filter] at he
    · have h2 := he.2
      have hc : e.cls = .cfg := by
        cases hcl : e.cls <;> simp [ownedBy, heq, hcl] at h2 ⊢
      have := hI.cfgOwned e he.1 hc
      rw [heq, ha, hs] at this
      simp at this
    · have h2 := he.2
      simp [ownedBy, heq] at h2
    · have h2 := he.2
      simp [ownedBy, heq] at h2

/-- Frame: no step of mode `m` (lifecycle or user code) touches a registry entry owned by another mode. -/
theorem others_untouched (st st' : St) (op : Op) (h : step st op = some st') :
    st'.bus.filter (fun e => e.owner != op.target) = st.bus.filter (fun e => e.owner != op.target) ∧
    st'.sw.filter (fun e => e.owner != op.target) = st.sw.filter (fun e => e.owner != op.target) ∧
    st'.dl.filter (fun e => e.owner != op.target) = st.dl.filter (fun e => e.owner != op.target) :=
  step_frame st st' op h

/-- N cycles: any sequence of steps of mode `m` alone (any number of start/stop cycles, any user registrations, any
interleaving) that ends with a completed stop leaves all three registries exactly as they were before, provided `m`
owned nothing at the beginning. -/
theorem cycles_restore (cfg : Nat → Cfg) (pre ops : List Op) (m : Nat) (s' : St)
    (hclean : let s0 := run (init cfg) pre
      (∀ e ∈ s0.bus, e.owner ≠ m) ∧ (∀ e ∈ s0.sw, e.owner ≠ m) ∧ (∀ e ∈ s0.dl, e.owner ≠ m))
    (htarget : ∀ op ∈ ops, op.target = m)
    (h : step (run (run (init cfg) pre) ops) (.stoppedCb m) = some s')
    (ha : ((run (run (init cfg) pre) ops).modes m).active = false)
    (hs : ((run (run (init cfg) pre) ops).modes m).starting = false) :
    s'.bus = (run (init cfg) pre).bus ∧ s'.sw = (run (init cfg) pre).sw ∧ s'.dl = (run (init cfg) pre).dl := by
  have hrun : run (run (init cfg) pre) ops = run (init cfg) (pre ++ ops) := (run_append _ pre ops).symm
  rw [hrun] at h ha hs
  obtain ⟨r1, r2, r3⟩ := registries_restored cfg (pre ++ ops) m s' h ha hs
  obtain ⟨f1, f2, f3⟩ := run_frame (run (init cfg) pre) ops m htarget
  obtain ⟨g1, g2, g3⟩ := step_frame _ s' (.stoppedCb m) h
  rw [← hrun] at g1 g2 g3
  simp only [Op.target] at g1 g2 g3
  obtain ⟨c1, c2, c3⟩ := hclean
  refine ⟨?_, ?_, ?_⟩
  · rw [← filter_other_self s'.bus m r1, g1, f1, filter_other_self _ m c1]
  · rw [← filter_other_self s'.sw m r2, g2, f2, filter_other_self _ m c2]
  · rw [← filter_other_self s'.dl m r3, g3, f3, filter_other_self _ m c3]

/-- Accepted requests make progress: an accepted start leaves `_started` enabled, which activates the mode; an
accepted stop leaves `_stopped` enabled, which deactivates it and leaves `_mode_stopped_callback` enabled. -/
theorem accepted_start_activates (st st1 : St) (m : Nat) (p : Option Int) (q : Bool)
    (ha : (st.modes m).active = false) (hs : (st.modes m).starting = false)
    (h : step st (.start m p q true) = some st1) :
    ∃ st2, step st1 (.started m) = some st2 ∧ (st2.modes m).active = true ∧ (st2.modes m).starting = false := by
  simp [step, ha, hs] at h
  subst h
  simp [step]

theorem accepted_stop_completes (st st1 : St) (m : Nat)
    (ha : (st.modes m).active = true) (hp : (st.modes m).stopping = false)
    (h : step st (.stop m) = some st1) :
    ∃ st2, step st1 (.stopped m) = some st2 ∧ (st2.modes m).active = false ∧ (st2.modes m).stopping = false ∧
      ∃ st3, step st2 (.stoppedCb m) = some st3 := by
  simp [step, ha, hp] at h
  subst h
  simp [step]

/-! ### non-vacuity and the recorded finding -/

def exCfg : Nat → Cfg
  | 1 => { prio := 200, nOwn := 2, nCfg := 1, nDev := 1 }
  | 2 => { prio := 200, useWait := true, nOwn := 1 }
  | _ => { prio := 300 }

/-- two overlapping modes of equal priority, user registrations while running and while stopping, a full cycle:
nothing of mode 1 is left, mode 2 is still up with its entry -/
example : (let s := run (init exCfg) [.start 1 none false true, .start 2 none true true, .started 2, .started 1,
      .addH 1 7, .addSw 1 8, .addDl 1 9, .startedCb 1, .stop 1, .addDl 1 10, .addSw 1 11, .stopped 1, .stoppedCb 1]
    (s.act, s.bus.map (·.owner), s.sw, s.dl, (s.modes 1).active, s.log.length)) = ([2], [2], [], [], false, 9) := by
  decide

/-- Known finding (kept as it is in the code): a start accepted between `_stopped` and `_mode_stopped_callback`
(e.g. from a `mode_<n>_stopped` handler) loses its handlers to the pending callback: the mode ends up active with
none of its own handlers (so its stop_events are no longer heard). -/
theorem restart_in_stopped_handler_witness :
    (let s := run (init exCfg) [.start 1 none false true, .started 1, .startedCb 1, .stop 1, .stopped 1,
        .start 1 none false true, .stoppedCb 1, .started 1, .startedCb 1]
     ((s.modes 1).active, (s.bus.filter (fun e => e.owner == 1 && e.cls == .own)).length)) = (true, 0) := by
  decide

end MpfVerif.C07
