import MpfVerif.Lemmas.Mode
/-!
# C07 — Mode lifecycle is well-formed and leaves nothing behind

Property theorems only, about `Model/Mode.lean`.  `run (init cfg) ops` is the state after an arbitrary sequence of
requests (`start`/`stop`, accepted or turned down), scheduler choices (which pending lifecycle callback runs next) and
user registrations, for arbitrary mode configurations `cfg`; steps that are not enabled are skipped.
-/
namespace MpfVerif.C07
open MpfVerif.Mode

/-- Clause 1: for every mode the lifecycle events posted so far are a prefix of
(will_start starting started will_stop stopping stopped)*, and the position reached is the one the mode's flags say
(idle 0, starting 2, active 3, stopping 5) — after ANY sequence of ops. -/
theorem lifecycle_order (cfg : Nat → Cfg) (ops : List Op) (m : Nat) :
    dfa 0 (proj m (run (init cfg) ops).log) = some (pos ((run (init cfg) ops).modes m)) :=
  (run_inv _ ops (inv_init cfg)).life m

/-- Clause 2: `active_modes` contains exactly the modes whose active flag is set, each once, strictly sorted by
(priority, name) descending — after ANY sequence of ops. -/
theorem active_list_exact (cfg : Nat → Cfg) (ops : List Op) :
    let s := run (init cfg) ops
    (∀ m, m ∈ s.act ↔ (s.modes m).active = true) ∧ s.act.Nodup ∧
      s.act.Pairwise (fun a b => before s.modes a b = true) := by
  intro s
  have hI := run_inv _ ops (inv_init cfg)
  refine ⟨hI.mem, ?_, hI.sorted⟩
  refine List.Pairwise.imp ?_ hI.sorted
  intro a b hab heq
  rw [heq, before_irrefl] at hab
  cases hab

/-- the flags exclude each other: a mode is never active and starting at once, and stopping only while active -/
theorem flags_consistent (cfg : Nat → Cfg) (ops : List Op) (m : Nat) :
    let s := run (init cfg) ops
    ((s.modes m).active = true → (s.modes m).starting = false) ∧ ((s.modes m).stopping = true → (s.modes m).active = true) :=
  ⟨(run_inv _ ops (inv_init cfg)).excl m, (run_inv _ ops (inv_init cfg)).stopAct m⟩

/-- Clause 3: whatever happened before, when the cleanup of a stop runs in `_mode_stopped_callback` (the stop's cleanup
is still pending and no newer start of that mode is under way), no event handler, switch handler or delay owned by that
mode is left, nothing a config player recorded under its context (light stack entries, show instances, enabled coils)
and no delay or periodic task of one of its devices.  (`_stopped` always leaves the cleanup pending:
`stopped_leaves_cleanup_pending`.) -/
theorem registries_restored (cfg : Nat → Cfg) (ops : List Op) (m : Nat) (s' : St)
    (h : step (run (init cfg) ops) (.stoppedCb m) = some s')
    (ha : ((run (init cfg) ops).modes m).active = false) (hs : ((run (init cfg) ops).modes m).starting = false)
    (hc : ((run (init cfg) ops).modes m).cleanupPending = true) :
    (∀ e ∈ s'.bus, e.owner ≠ m) ∧ (∀ e ∈ s'.sw, e.owner ≠ m) ∧ (∀ e ∈ s'.dl, e.owner ≠ m) ∧
    (∀ e ∈ s'.fx, e.owner ≠ m) ∧ (∀ e ∈ s'.tm, e.owner ≠ m) := by
  have hI := run_inv _ ops (inv_init cfg)
  have hI2 := run_inv2 _ ops (inv2_init cfg)
  simp only [step] at h
  split at h
  · cases h
  · cases h
    simp only [cbCore, cleanup, hc, if_true]
    refine ⟨?_, ?_, ?_, ?_, ?_⟩ <;> intro e he heq
    rotate_left 3
    · have := hI2.fxOwned e he
      rw [heq] at this
      simp [up, ha, hs] at this
    · simp only [List.mem_filter] at he
      have h2 := he.2
      simp [ownedBy, heq] at h2
    all_goals simp only [List.mem_filter] at he
    · have h2 := he.2
      have hcl : e.cls = .cfg ∨ e.cls = .turn := by
        cases hcl : e.cls <;> simp [ownedBy, heq, hcl] at h2 ⊢
      rcases hcl with hcl | hcl
      · have := hI.cfgOwned e he.1 hcl
        rw [heq, ha, hs] at this
        simp at this
      · have := hI.turnOwned e he.1 hcl
        rw [heq, hs] at this
        simp at this
    · have h2 := he.2
      simp [ownedBy, heq] at h2
    · have h2 := he.2
      simp [ownedBy, heq] at h2

theorem stopped_leaves_cleanup_pending (st st' : St) (m : Nat) (h : step st (.stopped m) = some st') :
    (st'.modes m).cleanupPending = true ∧ (st'.modes m).active = false := by
  simp only [step] at h
  split at h
  · cases h
  · cases h; simp

/-- The one-shot handler `ModeController._player_turn_ended` registers on `mode_<n>_started` for a game mode that is
still starting when the player's turn ends: after ANY op sequence such a handler exists only for a mode that is (still)
starting — it is gone as soon as the mode has started (it fires in the drain of that event and requests the stop), so
it is never part of the registries of a mode that is active, stopping or stopped. -/
theorem turn_end_handler_only_while_starting (cfg : Nat → Cfg) (ops : List Op) (e : Ent)
    (he : e ∈ (run (init cfg) ops).bus) (hc : e.cls = .turn) :
    ((run (init cfg) ops).modes e.owner).starting = true :=
  (run_inv _ ops (inv_init cfg)).turnOwned e he hc

/-- Frame: no step of mode `m` (lifecycle or user code) touches a registry entry owned by another mode. -/
theorem others_untouched (st st' : St) (op : Op) (h : step st op = some st') :
    st'.bus.filter (fun e => e.owner != op.target) = st.bus.filter (fun e => e.owner != op.target) ∧
    st'.sw.filter (fun e => e.owner != op.target) = st.sw.filter (fun e => e.owner != op.target) ∧
    st'.dl.filter (fun e => e.owner != op.target) = st.dl.filter (fun e => e.owner != op.target) ∧
    st'.fx.filter (fun e => e.owner != op.target) = st.fx.filter (fun e => e.owner != op.target) ∧
    st'.tm.filter (fun e => e.owner != op.target) = st.tm.filter (fun e => e.owner != op.target) :=
  ⟨(step_frame st st' op h).1, (step_frame st st' op h).2.1, (step_frame st st' op h).2.2,
   (step_frame2 st st' op h).1, (step_frame2 st st' op h).2⟩

/-- Config players: after ANY op sequence — whenever the dispatcher of a queue event calls an entry of the mode's config
players, also from a snapshot of the handler list taken before the mode stopped — nothing is recorded under the context of
a mode that is neither starting nor active: what a play leaves behind (light stack entry, show instance, enabled coil)
exists only between the mode's `start` (conditional entries are evaluated and played there) and its `_stopped`, which
clears it; a stale call changes nothing, and a subscription of a mode that is not running cannot be re-evaluated (it was
cancelled). -/
theorem config_player_effects_die_with_mode (cfg : Nat → Cfg) (ops : List Op) (m : Nat)
    (ha : ((run (init cfg) ops).modes m).active = false) (hs : ((run (init cfg) ops).modes m).starting = false) :
    (∀ e ∈ (run (init cfg) ops).fx, e.owner ≠ m) ∧
    (∀ id, step (run (init cfg) ops) (.cfgPlay m id) = some (run (init cfg) ops)) ∧
    (∀ id on, step (run (init cfg) ops) (.cfgSub m id on) = none) := by
  refine ⟨?_, ?_, ?_⟩
  · intro e he heq
    have := (run_inv2 _ ops (inv2_init cfg)).fxOwned e he
    rw [heq] at this
    simp [up, ha, hs] at this
  · intro id; simp [step, ha]
  · intro id on; simp [step, up, ha, hs]

/-- the guard of `config_play_callback`: an entry called for a mode that is not active changes nothing at all -/
theorem stale_config_play_has_no_effect (st : St) (m id : Nat) (ha : (st.modes m).active = false) :
    step st (.cfgPlay m id) = some st := by
  simp [step, ha]

/-- Device-owned delay managers and periodic tasks (timer ticks and pauses, logic-block timeouts, sequence-shot timeouts,
shot delay switches, ball-save timers): after ANY op sequence a pending one belongs to a mode whose devices are loaded
(between the accepted start and the cleanup of the stop); a device of a mode that is not running cannot schedule one; and
when the cleanup of a stop runs none of that mode is left (also part of `registries_restored`). -/
theorem device_timers_die_with_mode (cfg : Nat → Cfg) (ops : List Op) (m : Nat) :
    let s := run (init cfg) ops
    (alive (s.modes m) = false → (∀ e ∈ s.tm, e.owner ≠ m) ∧ ∀ id, step s (.addTm m id) = none) ∧
    (∀ s', step s (.stoppedCb m) = some s' → (s.modes m).cleanupPending = true → ∀ e ∈ s'.tm, e.owner ≠ m) := by
  intro s
  refine ⟨?_, ?_⟩
  · intro hd
    refine ⟨?_, ?_⟩
    · intro e he heq
      have := (run_inv2 _ ops (inv2_init cfg)).tmOwned e he
      rw [heq] at this
      rw [this] at hd; cases hd
    · intro id
      simp [step, hd]
  · intro s' h hc e he heq
    simp only [step] at h
    split at h
    · cases h
    · cases h
      simp only [cbCore, cleanup, hc, if_true, List.mem_filter] at he
      have h2 := he.2
      simp [ownedBy, heq] at h2

/-- N cycles: any sequence of steps of mode `m` alone (any number of start/stop cycles, any user registrations, config-player
plays — also stale ones —, device timers, any interleaving) that ends with a completed stop (its cleanup running in the
callback) leaves all five registries exactly as they were before, provided `m` owned nothing at the beginning. -/
theorem cycles_restore (cfg : Nat → Cfg) (pre ops : List Op) (m : Nat) (s' : St)
    (hclean : let s0 := run (init cfg) pre
      (∀ e ∈ s0.bus, e.owner ≠ m) ∧ (∀ e ∈ s0.sw, e.owner ≠ m) ∧ (∀ e ∈ s0.dl, e.owner ≠ m) ∧
      (∀ e ∈ s0.fx, e.owner ≠ m) ∧ (∀ e ∈ s0.tm, e.owner ≠ m))
    (htarget : ∀ op ∈ ops, op.target = m)
    (h : step (run (run (init cfg) pre) ops) (.stoppedCb m) = some s')
    (ha : ((run (run (init cfg) pre) ops).modes m).active = false)
    (hs : ((run (run (init cfg) pre) ops).modes m).starting = false)
    (hc : ((run (run (init cfg) pre) ops).modes m).cleanupPending = true) :
    s'.bus = (run (init cfg) pre).bus ∧ s'.sw = (run (init cfg) pre).sw ∧ s'.dl = (run (init cfg) pre).dl ∧
    s'.fx = (run (init cfg) pre).fx ∧ s'.tm = (run (init cfg) pre).tm := by
  have hrun : run (run (init cfg) pre) ops = run (init cfg) (pre ++ ops) := (run_append _ pre ops).symm
  rw [hrun] at h ha hs hc
  obtain ⟨r1, r2, r3, r4, r5⟩ := registries_restored cfg (pre ++ ops) m s' h ha hs hc
  obtain ⟨f1, f2, f3⟩ := run_frame (run (init cfg) pre) ops m htarget
  obtain ⟨f4, f5⟩ := run_frame2 (run (init cfg) pre) ops m htarget
  obtain ⟨g1, g2, g3⟩ := step_frame _ s' (.stoppedCb m) h
  obtain ⟨g4, g5⟩ := step_frame2 _ s' (.stoppedCb m) h
  rw [← hrun] at g1 g2 g3 g4 g5
  simp only [Op.target] at g1 g2 g3 g4 g5
  obtain ⟨c1, c2, c3, c4, c5⟩ := hclean
  refine ⟨?_, ?_, ?_, ?_, ?_⟩
  · rw [← filter_other_self s'.bus m r1, g1, f1, filter_other_self _ m c1]
  · rw [← filter_other_self s'.sw m r2, g2, f2, filter_other_self _ m c2]
  · rw [← filter_other_self s'.dl m r3, g3, f3, filter_other_self _ m c3]
  · rw [← filter_other_self s'.fx m r4, g4, f4, filter_other_self _ m c4]
  · rw [← filter_other_self s'.tm m r5, g5, f5, filter_other_self _ m c5]

/-- Accepted requests make progress: an accepted start leaves `_started` enabled, which activates the mode; an
accepted stop leaves `_stopped` enabled, which deactivates it and leaves `_mode_stopped_callback` enabled. -/
theorem accepted_start_activates (st st1 : St) (m : Nat) (p : Option Int) (q : Bool)
    (ha : (st.modes m).active = false) (hs : (st.modes m).starting = false)
    (h : step st (.start m p q true) = some st1) :
    ∃ st2, step st1 (.started m) = some st2 ∧ (st2.modes m).active = true ∧ (st2.modes m).starting = false := by
  simp [step, ha, hs] at h
  subst h
  simp [step, startCore]

theorem accepted_stop_completes (st st1 : St) (m : Nat)
    (ha : (st.modes m).active = true) (hp : (st.modes m).stopping = false)
    (h : step st (.stop m) = some st1) :
    ∃ st2, step st1 (.stopped m) = some st2 ∧ (st2.modes m).active = false ∧ (st2.modes m).stopping = false ∧
      ∃ st3, step st2 (.stoppedCb m) = some st3 := by
  simp [step, ha, hp] at h
  subst h
  simp [step]

/-- A start request that the guards of `Mode.start` turn down (game mode outside a game, mode already active - which
includes stopping -, mode already starting) changes NOTHING: not the flags, not the registries, not the log and in particular
not the priority of the running mode (`Mode.start` assigns `self.priority` only after its guards), whatever priority the
request carried.  Together with `active_list_exact` (which holds after ANY op sequence, refused requests included):
`active_modes`, which is only re-sorted when a mode becomes active or inactive, cannot get out of order through a
request that is not accepted. -/
theorem refused_start_changes_nothing (st : St) (m : Nat) (p : Option Int) (q g : Bool)
    (h : g = false ∨ (st.modes m).active = true ∨ (st.modes m).starting = true) :
    step st (.start m p q g) = some st := by
  rcases h with h | h | h <;> simp [step, h]

/-- ... in every reachable state also while the mode is stopping (its `mode_<n>_stopping` queue event may be held open for
any time): stopping implies active. -/
theorem refused_start_while_stopping (cfg : Nat → Cfg) (ops : List Op) (m : Nat) (p : Option Int) (q g : Bool)
    (h : ((run (init cfg) ops).modes m).stopping = true) :
    step (run (init cfg) ops) (.start m p q g) = some (run (init cfg) ops) :=
  refused_start_changes_nothing _ m p q g (Or.inr (Or.inl ((run_inv _ ops (inv_init cfg)).stopAct m h)))

/-- The priority of a mode changes in two steps only: an ACCEPTED start of that mode (to the requested or the configured
priority) and its `_stopped` (back to 0) - no other op of any mode, and no refused request, touches it. -/
theorem priority_changes_only_at_accepted_start_or_stopped (st st' : St) (op : Op) (m : Nat)
    (h : step st op = some st') (hne : (st'.modes m).prio ≠ (st.modes m).prio) :
    (∃ p q, op = .start m p q true ∧ (st.modes m).active = false ∧ (st.modes m).starting = false) ∨ op = .stopped m := by
  cases op with
  | start m' p q g =>
    by_cases hm : m' = m
    · subst hm
      left
      cases g with
      | false => simp [step] at h; subst h; exact absurd rfl hne
      | true =>
        cases ha : (st.modes m').active with
        | true => simp [step, ha] at h; subst h; exact absurd rfl hne
        | false =>
          cases hs : (st.modes m').starting with
          | true => simp [step, hs] at h; subst h; exact absurd rfl hne
          | false => exact ⟨p, q, rfl, rfl, rfl⟩
    · exfalso
      simp only [step] at h
      split at h
      · cases h; exact hne rfl
      · cases h
        apply hne
        simp only [startCore]
        rw [upd_other _ _ _ _ (Ne.symm hm)]
        exact congrArg MState.prio (cleanup_other st m' m (Ne.symm hm))
  | stopped m' =>
    by_cases hm : m' = m
    · subst hm; right; rfl
    · exfalso
      simp only [step] at h
      split at h
      · cases h
      · cases h; apply hne; simp only []; rw [upd_other _ _ _ _ (Ne.symm hm)]
  | started m' =>
    exfalso
    simp only [step] at h
    split at h
    · cases h
    · cases h; apply hne; simp only []
      by_cases hm : m = m'
      · subst hm; simp
      · rw [upd_other _ _ _ _ hm]
  | startedCb m' =>
    exfalso
    simp only [step] at h
    split at h
    · cases h
    · cases h; apply hne; simp only []
      by_cases hm : m = m'
      · subst hm; simp
      · rw [upd_other _ _ _ _ hm]
  | stop m' =>
    exfalso
    simp only [step] at h
    split at h
    · cases h; exact hne rfl
    · cases h; apply hne; simp only []
      by_cases hm : m = m'
      · subst hm; simp
      · rw [upd_other _ _ _ _ hm]
  | stoppedCb m' =>
    exfalso
    simp only [step] at h
    split at h
    · cases h
    · cases h; apply hne
      simp only [cbCore]
      by_cases hm : m = m'
      · subst hm; simp [cleanup_prio]
      · rw [upd_other _ _ _ _ hm]; exact congrArg MState.prio (cleanup_other st m' m hm)
  | addH _ _ | addSw _ _ | addDl _ _ | remTm _ _ =>
    simp only [step, Option.some.injEq] at h; cases h; exact absurd rfl hne
  | fireDl _ _ | turnEnd _ | addTm _ _ | fireTm _ _ | cfgPlay _ _ | ctlCall _ _ =>
    simp only [step] at h; split at h <;> cases h <;> exact absurd rfl hne
  | cfgSub _ _ _ =>
    simp only [step] at h; (repeat' split at h) <;> cases h <;> exact absurd rfl hne

/-- An accepted stop cancels every delay and switch handler of the mode at once (`Mode.stop`: `_remove_mode_switch_handlers`,
`delay.clear()`), not only when the `mode_<n>_stopping` queue event is released: right after the request no delay of the
mode can fire, however long the queue is held (a delay added later, while stopping, is a new one - D12). -/
theorem accepted_stop_cancels_delays (st st1 : St) (m : Nat)
    (ha : (st.modes m).active = true) (hp : (st.modes m).stopping = false)
    (h : step st (.stop m) = some st1) :
    (∀ e ∈ st1.dl, e.owner ≠ m) ∧ (∀ e ∈ st1.sw, e.owner ≠ m) ∧ (∀ id, step st1 (.fireDl m id) = none) := by
  simp [step, ha, hp] at h
  subst h
  refine ⟨?_, ?_, ?_⟩
  · intro e he heq
    simp only [List.mem_filter] at he
    have := he.2; simp [ownedBy, heq] at this
  · intro e he heq
    simp only [List.mem_filter] at he
    have := he.2; simp [ownedBy, heq] at this
  · intro id
    simp [step, ownedBy]

/-- Device control events (`count_events: ev`, `enable_events: {ev: 2s}` ...: handlers the mode registers in
`_setup_device_control_events`): whenever such a handler is called for a mode that is neither starting nor active - e.g.
from the snapshot of a queue event's handler list taken before the mode stopped - nothing happens: the device's control
method is not called and no delayed call is scheduled on the stopped mode's delay manager.  (What a call made while the
mode runs schedules is an owned delay and is covered by `registries_restored`.) -/
theorem stale_control_event_has_no_effect (st : St) (m : Nat) (dl : Option Nat)
    (ha : (st.modes m).active = false) (hs : (st.modes m).starting = false) :
    step st (.ctlCall m dl) = some st := by
  simp [step, up, ha, hs]

/-! ### non-vacuity and the recorded finding -/

def exCfg : Nat → Cfg
  | 1 => { prio := 200, nOwn := 2, nCfg := 1, nDev := 1 }
  | 2 => { prio := 200, useWait := true, nOwn := 1 }
  | _ => { prio := 300 }

/-- two overlapping modes of equal priority, user registrations while running and while stopping, a full cycle:
nothing of mode 1 is left, mode 2 is still up with its entry -/
example : (let s := run (init exCfg) [.start 1 none false true, .start 2 none true true, .started 2, .started 1,
      .addH 1 7, .addSw 1 8, .addDl 1 9, .startedCb 1, .stop 1, .addDl 1 10, .addSw 1 11, .stopped 1, .stoppedCb 1]
    (s.act, s.bus.map (·.owner), s.sw, s.dl, (s.modes 1).active, s.log.length)) = ([2], [2], [], [], false, 9) := by
  decide

/-- The restart from a `mode_<n>_stopped` handler (formerly a known finding, now repaired): a start accepted while the
cleanup of the previous stop is still pending performs that cleanup first — afterwards the mode owns exactly the fresh
footprint of this start (no event handler, switch handler or delay of the previous run), the cleanup is no longer
pending — -/
theorem restart_starts_clean (cfg : Nat → Cfg) (ops : List Op) (m : Nat) (p : Option Int) (q : Bool) (s1 : St)
    (ha : ((run (init cfg) ops).modes m).active = false) (hs : ((run (init cfg) ops).modes m).starting = false)
    (hc : ((run (init cfg) ops).modes m).cleanupPending = true)
    (h : step (run (init cfg) ops) (.start m p q true) = some s1) :
    s1.bus.filter (ownedBy m) = mkEnts m .own (cfg m).nOwn ++ mkEnts m .cfg (cfg m).nCfg ∧
    (∀ e ∈ s1.sw, e.owner ≠ m) ∧ (∀ e ∈ s1.dl, e.owner ≠ m) ∧ (s1.modes m).cleanupPending = false := by
  have hI := run_inv _ ops (inv_init cfg)
  have hcfg : (run (init cfg) ops).cfg = cfg := run_cfg _ ops
  simp [step, ha, hs] at h
  subst h
  simp only [startCore, cleanup, hc, if_true, hcfg]
  refine ⟨?_, ?_, ?_, by simp⟩
  · rw [List.filter_append, List.filter_append]
    have h1 : (List.filter (fun e => !(ownedBy m e && (e.cls == Cls.own || e.cls == Cls.dev))) (run (init cfg) ops).bus).filter
        (ownedBy m) = [] := by
      rw [List.filter_eq_nil_iff]
      intro e he hm
      simp only [List.mem_filter] at he
      have heq : e.owner = m := by simpa [ownedBy] using hm
      have h2 := he.2
      have hcl : e.cls = .cfg ∨ e.cls = .turn := by
        cases hcl : e.cls <;> simp [ownedBy, heq, hcl] at h2 ⊢
      rcases hcl with hcl | hcl
      · have := hI.cfgOwned e he.1 hcl
        rw [heq, ha, hs] at this
        simp at this
      · have := hI.turnOwned e he.1 hcl
        rw [heq, hs] at this
        simp at this
    have h2 : ∀ c n, (mkEnts m c n).filter (ownedBy m) = mkEnts m c n := by
      intro c n
      rw [List.filter_eq_self]
      intro e he
      simp [ownedBy, (mkEnts_owner m c n e he).1]
    rw [h1, h2, h2]; rfl
  · intro e he heq
    simp only [List.mem_filter] at he
    have := he.2; simp [ownedBy, heq] at this
  · intro e he heq
    simp only [List.mem_filter] at he
    have := he.2; simp [ownedBy, heq] at this

/-- — and the callback of the previous stop, when it finally runs, touches no registry any more: the new run keeps
all its handlers, switch handlers, delays and devices. -/
theorem late_stop_callback_harmless (st st' : St) (m : Nat) (hc : (st.modes m).cleanupPending = false)
    (h : step st (.stoppedCb m) = some st') : st'.bus = st.bus ∧ st'.sw = st.sw ∧ st'.dl = st.dl := by
  simp only [step] at h
  split at h
  · cases h
  · cases h; simp [cbCore, cleanup, hc]

/-- the former witness, now with the repaired outcome: the restarted mode is active and has its own handlers -/
example :
    (let s := run (init exCfg) [.start 1 none false true, .started 1, .startedCb 1, .stop 1, .stopped 1,
        .start 1 none false true, .stoppedCb 1, .started 1, .startedCb 1]
     ((s.modes 1).active, (s.bus.filter (fun e => e.owner == 1 && e.cls == .own)).length)) = (true, 2) := by
  decide

/-- a queue event keyed by mode 1's light_player (0) and show_player (1) is held open; the mode stops during the hold;
the entries of the snapshot are called afterwards: nothing is recorded.  Before the stop the same calls record two
entries, a repeated play records nothing new, and the stop clears them. -/
example :
    (let s1 := run (init exCfg) [.start 1 none false true, .started 1, .startedCb 1, .cfgPlay 1 0, .cfgPlay 1 1, .cfgPlay 1 0,
        .cfgPlay 1 100]
     let s2 := run s1 [.stop 1, .stopped 1, .stoppedCb 1, .cfgPlay 1 0, .cfgPlay 1 1]
     (s1.fx.length, s2.fx.length, s2.bus.length)) = (2, 0, 0) := by
  decide

/-- a conditional light_player entry (10) is true when the mode starts (played in `start()`), becomes false (removed) and
true again; the stop clears it -/
example :
    (let s1 := run (init exCfg) [.start 1 none false true, .cfgSub 1 10 true]
     let s2 := run s1 [.started 1, .startedCb 1, .cfgSub 1 10 false]
     let s3 := run s2 [.cfgSub 1 10 true, .cfgSub 1 110 true, .stop 1, .stopped 1]
     (s1.fx.length, s2.fx.length, s3.fx.length, (step s3 (.cfgSub 1 10 true)).isSome,
      (run (init exCfg) [.start 1 none false true, .started 1, .cfgSub 1 10 true]).fx.length)) = (1, 0, 0, false, 1) := by
  decide

/-- a timer of mode 1 is started (periodic task 5) and paused (delay 6); the mode stops inside the pause: both are gone
after the cleanup, and the device cannot schedule anything afterwards -/
example :
    (let s1 := run (init exCfg) [.start 1 none false true, .addTm 1 5, .started 1, .startedCb 1, .remTm 1 5, .addTm 1 6]
     let s2 := run s1 [.stop 1, .stopped 1, .addTm 1 7, .stoppedCb 1]
     (s1.tm.length, (run s1 [.stop 1, .stopped 1, .addTm 1 7]).tm.length, s2.tm.length,
      (step s2 (.addTm 1 8)).isSome, (step s1 (.fireTm 1 6)).isSome)) = (1, 2, 0, false, true) := by
  decide

/-- the turn ends while mode 1 is still starting: the one-shot handler is registered, and gone once the mode has
started; the stop it requests is an ordinary stop -/
example :
    (let s1 := run (init exCfg) [.start 1 none false true, .turnEnd 1, .turnEnd 1]
     let s2 := run s1 [.started 1, .stop 1, .startedCb 1, .stopped 1, .stoppedCb 1]
     (cnt s1.bus 1 .turn false, cnt s2.bus 1 .turn false, s2.bus.length, (s2.modes 1).active)) = (2, 0, 0, false) := by
  decide

/-- modes 1 (200) and 3 (300) are up; start requests for the running mode 1 with priorities above mode 3 (direct and
through the start event), also while it is stopping, are refused: priority and order stay; the same request after the
stop is accepted and mode 1 is then sorted in front -/
example :
    (let s1 := run (init exCfg) [.start 1 none false true, .start 3 none false true, .started 1, .started 3,
        .start 1 (some 500) false true, .start 1 (some 301) true true, .stop 1, .start 1 (some 400) false true]
     let s2 := run s1 [.stopped 1, .start 1 (some 400) false true, .started 1]
     (s1.act, (s1.modes 1).prio, s1.log.length, s2.act, (s2.modes 1).prio)) = ([3, 1], 200, 8, [1, 3], 400) := by
  decide

/-- a delay of mode 1 is pending when the stop is accepted: it cannot fire while the stopping queue is held; a control
event of mode 1 (delayed form, id 21) called after the stop from a queue event's snapshot schedules nothing, the same
call while the mode ran did (id 20, cancelled by the stop) -/
example :
    (let s1 := run (init exCfg) [.start 1 none false true, .started 1, .addDl 1 9, .ctlCall 1 (some 20)]
     let s2 := run s1 [.stop 1]
     let s3 := run s2 [.stopped 1, .stoppedCb 1, .ctlCall 1 (some 21), .ctlCall 1 none]
     (s1.dl.length, s2.dl.length, (step s2 (.fireDl 1 9)).isSome, s3.dl.length, (step s1 (.fireDl 1 20)).isSome)) =
      (2, 0, false, 0, true) := by
  decide

end MpfVerif.C07
