import MpfVerif.Lemmas.Switch
/-!
# C03 — Switch state mirrors the hardware; handlers fire once per real change

Property theorems about `Model/Switch.lean` (the switch controller's state for one switch; switches are independent
in the controller, the driver runs one instance per switch), the model `harness/corr/C03.py` runs against the real
`SwitchController`.  All statements are over every op sequence: raw/logical reports, handler registration and removal,
`is_active`-queries, time steps and wake-ups (= every timeline, every coincidence between changes and deadlines).
Not covered by theorems: switch events / ignore window of `devices/switch.py` (harness oracle only) and callbacks that
themselves add or remove switch handlers.
-/
namespace MpfVerif.C03
open MpfVerif.Switch

/-- the last report in an op sequence -/
def lastReport : List Op → Option (Bool × Bool)
  | [] => none
  | .report l v :: r => (lastReport r).orElse (fun _ => some (l, v))
  | _ :: r => lastReport r

/-- **state_is_last_report** (with `nc_inversion`).  After any op sequence the logical state is the logical value of
the last report — the reported value itself for a logical report, the reported value inverted on an NC switch for a raw
report (`logicalOf`) — or the initial state if nothing was reported; `invert` never changes; and if the raw state was
the inverse image of the logical one it still is (`hw = state xor invert`), i.e. `hw_state` is the last raw value. -/
theorem state_is_last_report (ops : List Op) : ∀ (s : Sw) (r : Sw × List Obs), Inv s → run s ops = some r →
    r.1.invert = s.invert ∧
    r.1.state = (match lastReport ops with | none => s.state | some (l, v) => logicalOf s.invert l v) ∧
    (s.hw = (s.state != s.invert) → r.1.hw = (r.1.state != r.1.invert)) := by
  induction ops with
  | nil => intro s r _ h; simp [run] at h; subst h; simp [lastReport]
  | cons op ops ih =>
    intro s r i h
    obtain ⟨r1, r2, h1, h2, rfl⟩ := run_cons h
    obtain ⟨a1, a2, a3⟩ := ih r1.1 r2 (step_inv s op r1 i h1) h2
    obtain ⟨b1, b2, b3⟩ := step_core s op r1 h1
    refine ⟨by rw [a1, b1], ?_, ?_⟩
    · show r2.1.state = _
      rw [a2]
      cases op with
      | report l v =>
        simp only [lastReport]
        cases hl : lastReport ops with
        | none => simp [Option.orElse]; exact b2.1
        | some lv => obtain ⟨l', v'⟩ := lv; simp [Option.orElse, b1]
      | add _ _ _ => simp only [lastReport]; cases hl : lastReport ops <;> simp [b1, b2.1]
      | remove _ _ _ => simp only [lastReport]; cases hl : lastReport ops <;> simp [b1, b2.1]
      | to _ => simp only [lastReport]; cases hl : lastReport ops <;> simp [b1, b2.1]
      | wake => simp only [lastReport]; cases hl : lastReport ops <;> simp [b1, b2.1]
      | query _ _ => simp only [lastReport]; cases hl : lastReport ops <;> simp [b1, b2.1]
    · intro hh
      apply a3
      by_cases c : r1.1.state = s.state
      · rw [b3 c, c, b1]; exact hh
      · cases op with
        | report l v => exact b2.2 c
        | add _ _ _ => exact absurd b2.1 c
        | remove _ _ _ => exact absurd b2.1 c
        | to _ => exact absurd b2.1 c
        | wake => exact absurd b2.1 c
        | query _ _ => exact absurd b2.1 c

/-- **duplicate_silent.**  A report whose logical value equals the current state changes nothing at all (no field of
the controller state) and calls nothing. -/
theorem duplicate_silent (s : Sw) (l v : Bool) (h : logicalOf s.invert l v = s.state) :
    step s (.report l v) = some (s, []) := step_report_dup s l v h

/-- **untimed_once_per_change.**  A report that really changes the switch into state `st` calls exactly the untimed
handlers registered for `st`, once each, in registration order, at that instant — and nothing else (timed handlers only
get a deadline). -/
theorem untimed_once_per_change (s : Sw) (l v : Bool) (r : Sw × List Obs)
    (hne : logicalOf s.invert l v ≠ s.state) (h : step s (.report l v) = some r) :
    r.2 = ((s.reg (logicalOf s.invert l v)).filter (fun x => x.ms = 0)).map
            (fun x => Obs.call x.cb (logicalOf s.invert l v) 0 s.now) := by
  rw [step_report_change s l v hne] at h
  injection h with h; subst h
  rw [callHandlers_obs]
  have : (changed s (logicalOf s.invert l v)).reg (logicalOf s.invert l v) = s.reg (logicalOf s.invert l v) := by
    cases logicalOf s.invert l v <;> rfl
  rw [this]

/-- **wake_is_min_deadline.**  In every state reachable from a fresh switch, the single scheduled wake-up is exactly
the minimum of the pending deadlines (none iff none is pending) and it is not overdue; hence every pending deadline `k`
satisfies `now ≤ wake ≤ k`: no deadline can be slept through. -/
theorem wake_is_min_deadline (invert state hw : Bool) (ops : List Op) (r : Sw × List Obs)
    (h : run { invert := invert, state := state, hw := hw } ops = some r) :
    r.1.wake = minKey r.1.timed ∧
    ∀ kv ∈ r.1.timed, ∃ w, r.1.wake = some w ∧ r.1.now ≤ w ∧ w ≤ kv.1 := by
  have i := run_inv ops _ r (init_inv invert state hw) h
  refine ⟨i.wake_min, ?_⟩
  intro kv hkv
  cases hm : minKey r.1.timed with
  | none => rw [minKey_none.mp hm] at hkv; simp at hkv
  | some w =>
    have hw' : r.1.wake = some w := by rw [i.wake_min, hm]
    exact ⟨w, hw', i.wake_ge w hw', (minKey_spec hm).2 kv.1 (List.mem_map.mpr ⟨kv, hkv, rfl⟩)⟩

/-- **timed_only_when_held** (the "only if" half of `timed_iff_held`, with the exact instant).  In every reachable
state, every handler call made by a wake-up is for a handler with hold time `ms ≠ 0` registered for the *current* state,
and happens at exactly `last change + ms`: the switch went into that state `ms` ago and has not changed since. -/
theorem timed_only_when_held (invert state hw : Bool) (ops : List Op) (s : Sw) (tr : List Obs) (r : Sw × List Obs)
    (h : run { invert := invert, state := state, hw := hw } ops = some (s, tr)) (hs : step s .wake = some r) :
    ∀ cb st ms t, Obs.call cb st ms t ∈ r.2 →
      t = s.now ∧ st = s.state ∧ ms ≠ 0 ∧ ∃ lc, s.lastChange = some lc ∧ t = lc + ms := by
  have i := run_inv ops _ (s, tr) (init_inv invert state hw) h
  intro cb st ms t hc
  simp only [step] at hs
  cases hw' : s.wake with
  | none => simp [hw'] at hs
  | some w =>
    simp only [hw'] at hs
    split at hs
    · rename_i hle
      injection hs with hs; subst hs
      obtain ⟨kv, h1, h2, e, h3, h4⟩ := (processTimed_res s.now s.timed).2 _ hc
      injection h4 with d1 d2 d3 d4
      obtain ⟨lc, e1, e2, e3, e4⟩ := i.entries kv h1 e h3
      have hm : minKey s.timed = some w := by rw [← i.wake_min, hw']
      have := (minKey_spec hm).2 kv.1 (List.mem_map.mpr ⟨kv, h1, rfl⟩)
      have hge : s.now ≤ w := i.wake_ge w hw'
      subst d1; subst d2; subst d3; subst d4
      exact ⟨rfl, e3, e4, lc, e1, by omega⟩
    · simp at hs

/-- **removed_never_fires.**  After `remove st ms cb` the handler is neither registered nor pending (`Absent`), and along
every continuation that does not add it again it stays absent and is never called — whatever reports, wake-ups, other
registrations and removals happen. -/
theorem removed_never_fires (s : Sw) (st : Bool) (ms cb : Nat) (r0 : Sw × List Obs)
    (h0 : step s (.remove st ms cb) = some r0) (ops : List Op) (hops : ∀ op ∈ ops, op ≠ .add st ms cb)
    (r : Sw × List Obs) (h : run r0.1 ops = some r) :
    Absent r0.1 st ms cb ∧ Absent r.1 st ms cb ∧ ∀ t, Obs.call cb st ms t ∉ r.2 := by
  have a0 : Absent r0.1 st ms cb := by
    simp only [step] at h0
    injection h0 with h0; subst h0
    obtain ⟨_, _, _, _, _, f6, _, f8, _⟩ := setReg_fields s st ((s.reg st).filter (fun r => !(r.ms == ms && r.cb == cb)))
    refine ⟨?_, ?_⟩
    · show _ ∉ (s.setReg st _).reg st
      rw [f8]
      intro hm
      have := (List.mem_filter.mp hm).2
      simp at this
    · intro kv hkv he
      obtain ⟨kv0, _, rfl⟩ := List.mem_map.mp hkv
      have := (List.mem_filter.mp he).2
      simp [isMatch] at this
  refine ⟨a0, ?_⟩
  have key : ∀ (ops : List Op) (s1 : Sw) (r : Sw × List Obs), Absent s1 st ms cb → (∀ op ∈ ops, op ≠ .add st ms cb) →
      run s1 ops = some r → Absent r.1 st ms cb ∧ ∀ t, Obs.call cb st ms t ∉ r.2 := by
    intro ops
    induction ops with
    | nil => intro s1 r a _ h; simp [run] at h; subst h; exact ⟨a, by simp⟩
    | cons op ops ih =>
      intro s1 r a hops h
      obtain ⟨r1, r2, h1, h2, rfl⟩ := run_cons h
      obtain ⟨b1, b2⟩ := step_absent s1 op r1 st ms cb a (hops op (by simp)) h1
      obtain ⟨c1, c2⟩ := ih r1.1 r2 b1 (fun o ho => hops o (by simp [ho])) h2
      refine ⟨c1, ?_⟩
      intro t ht
      rcases List.mem_append.mp ht with d | d
      · exact b2 t d
      · exact c2 t d
  exact key ops r0.1 r a0 hops h

/-- **late_add_does_not_fire / catch-up at the original deadline** (the repaired D1): a timed handler added while the
switch is already in its state gets the *original* deadline `last change + ms` if that is still ahead, and nothing is
scheduled for it if that instant has been reached. -/
theorem add_catches_up_only_before_deadline (s : Sw) (st : Bool) (ms cb lc : Nat) (r : Sw × List Obs)
    (hl : s.lastChange = some lc) (h : step s (.add st ms cb) = some r) :
    (ms ≠ 0 ∧ s.now < lc + ms ∧ st = s.state →
      ∃ kv ∈ r.1.timed, kv.1 = lc + ms ∧ (⟨cb, st, ms⟩ : TEntry) ∈ kv.2) ∧
    (¬ (ms ≠ 0 ∧ s.now < lc + ms ∧ st = s.state) → r.1.timed = s.timed ∧ r.1.wake = s.wake) := by
  simp only [step, hl] at h
  obtain ⟨_, _, _, _, _, f6, f7, _, _⟩ := setReg_fields s st (s.reg st ++ [⟨cb, ms⟩])
  split at h
  · rename_i c
    injection h with h; subst h
    refine ⟨fun _ => ?_, fun n => absurd c n⟩
    simp only [addTimed]
    generalize (s.setReg st (s.reg st ++ [⟨cb, ms⟩])).timed = l
    induction l with
    | nil => exact ⟨(lc + ms, [⟨cb, st, ms⟩]), by simp [insertTimed], rfl, by simp⟩
    | cons kv0 rest ih =>
      obtain ⟨k0, es⟩ := kv0
      simp only [insertTimed]
      split
      · rename_i e; exact ⟨(k0, es ++ [⟨cb, st, ms⟩]), by simp, e, by simp⟩
      · obtain ⟨kv, a, b, d⟩ := ih
        exact ⟨kv, by simp [a], b, d⟩
  · rename_i c
    injection h with h; subst h
    exact ⟨fun y => absurd y c, fun _ => ⟨f6, f7⟩⟩

/-! ## the statements are not vacuous (kernel evaluation on concrete timelines) -/

/-- NC switch, raw reports, duplicate, handler added inside the interval (fires at the original deadline), at the
deadline (does not), duplicate registration removed once (neither copy fires) -/
example : (run { invert := true, state := false, hw := true }
    [.add true 3 1, .report false false, .to 1, .add true 3 2, .add true 2 3, .add true 2 3, .remove true 2 3,
     .report true true, .to 2, .wake, .to 3, .add true 3 4, .wake, .query true 3, .report false true, .to 9]).map
      (fun r => (r.2, r.1.state, r.1.hw, r.1.wake))
    = some ([.call 1 true 3 3, .call 2 true 3 3, .answer true], false, true, none) := by decide

/-- time cannot pass the wake-up; a wake-up cannot run early -/
example : run {} [.add true 2 0, .report true true, .to 3] = none ∧
    run {} [.add true 2 0, .report true true, .to 1, .wake] = none := by decide


/-! ## Switch device events (`Dev` in `Model/Switch.lean`) -/

/-- the posts a history of handler calls should produce when there is no ignore window: one per real change, in order -/
def changesOf : List DOp → List DObs
  | [] => []
  | .change st :: r => .post st :: changesOf r
  | _ :: r => changesOf r

/-- **events_once.**  Without an ignore window, along every history the device posts its configured events for the new
state exactly once per real change reported by the controller, in order, and nothing else ever posts (time passing
posts nothing; no window timer exists).  With `untimed_once_per_change`/`duplicate_silent` (the controller calls the
device's handler once per real change and never for a duplicate) this is "events once per real change". -/
theorem events_once (ops : List DOp) : ∀ (d : Dev) (r : Dev × List DObs), d.window = 0 → d.clear = none →
    drun d ops = some r → r.2 = changesOf ops ∧ r.1.window = 0 ∧ r.1.clear = none := by
  induction ops with
  | nil => intro d r hw hc h; simp [drun] at h; subst h; exact ⟨rfl, hw, hc⟩
  | cons op ops ih =>
    intro d r hw hc h
    obtain ⟨r1, r2, h1, h2, rfl⟩ := drun_cons h
    have k : r1.2 = changesOf [op] ∧ r1.1.window = 0 ∧ r1.1.clear = none := by
      cases op with
      | change st =>
        simp only [dstep, hw] at h1
        split at h1
        · cases h1
        · simp at h1; subst h1; exact ⟨rfl, rfl, hc⟩
      | to t =>
        simp only [dstep] at h1
        split at h1
        · injection h1 with h1; subst h1; exact ⟨rfl, hw, hc⟩
        · cases h1
      | pass => simp [dstep, hc] at h1
    obtain ⟨a, b, c⟩ := ih r1.1 r2 k.2.1 k.2.2 h2
    refine ⟨?_, b, c⟩
    show r1.2 ++ r2.2 = changesOf (op :: ops)
    rw [k.1, a]
    cases op <;> rfl

/-- **recycle_window.**  With an ignore window `w > 0`, in every state reachable from a fresh device:
(a) a change while no window is open posts the new state's events once and opens a window that ends exactly `w` later;
(b) a change while a window is open posts nothing;
(c) the window's end is never slept through, and when `_recycle_passed` runs it is exactly at that instant; it closes the
window and posts the current state's events iff the switch is then in the other state than the one that opened the window
(the catch-up post), nothing otherwise;
(d) hence at most one post per window: while a window is open and its end has not run, nothing at all is posted;
(e) whenever no window is open, the last post is the current state. -/
theorem recycle_window (w : Nat) (st0 : Bool) (ops0 : List DOp) (d : Dev) (tr0 : List DObs) (hw : w ≠ 0)
    (hreach : drun { window := w, state := st0, posted := st0 } ops0 = some (d, tr0)) :
    (d.window = w) ∧
    (∀ st r, d.clear = none → dstep d (.change st) = some r →
        r.2 = [.post st] ∧ r.1.clear = some (d.now + w) ∧ r.1.state = st) ∧
    (∀ st r c, d.clear = some c → dstep d (.change st) = some r → r.2 = [] ∧ r.1.clear = some c ∧ r.1.state = st) ∧
    (∀ r, dstep d .pass = some r → d.clear = some d.now ∧ r.1.clear = none ∧
        r.2 = (if d.state = d.opened then [] else [.post d.state])) ∧
    (∀ c, d.clear = some c → ∀ ops r, (∀ op ∈ ops, op ≠ .pass) → drun d ops = some r → r.2 = [] ∧ r.1.clear = some c) ∧
    (d.clear = none → d.posted = d.state) := by
  -- reachable states keep the window size and the invariant
  have key : ∀ (ops : List DOp) (d0 : Dev) (r : Dev × List DObs), DInv d0 → d0.window = w → drun d0 ops = some r →
      DInv r.1 ∧ r.1.window = w := by
    intro ops
    induction ops with
    | nil => intro d0 r i hw0 h; simp [drun] at h; subst h; exact ⟨i, hw0⟩
    | cons op ops ih =>
      intro d0 r i hw0 h
      obtain ⟨r1, r2, h1, h2, rfl⟩ := drun_cons h
      have i1 := dstep_inv d0 op r1 i h1
      have w1 : r1.1.window = w := by
        cases op with
        | change st =>
          simp only [dstep] at h1
          split at h1
          · cases h1
          · split at h1
            · injection h1 with h1; subst h1; exact hw0
            · cases hc : d0.clear <;> (simp only [hc] at h1; injection h1 with h1; subst h1; exact hw0)
        | to t =>
          simp only [dstep] at h1
          split at h1
          · injection h1 with h1; subst h1; exact hw0
          · cases h1
        | pass =>
          simp only [dstep] at h1
          cases hc : d0.clear with
          | none => simp [hc] at h1
          | some c =>
            simp only [hc] at h1
            split at h1
            · split at h1 <;> (injection h1 with h1; subst h1; exact hw0)
            · cases h1
      exact ih r1.1 r2 i1 w1 h2
  obtain ⟨i, hdw⟩ := key ops0 _ (d, tr0) ⟨by simp, by simp, by simp, by simp⟩ rfl hreach
  have hdw' : d.window = w := hdw
  have hw' : d.window ≠ 0 := by rw [hdw']; exact hw
  refine ⟨hdw, ?_, ?_, ?_, ?_, i.closed_sync⟩
  · intro st r hc h
    simp only [dstep, hc] at h
    split at h
    · cases h
    all_goals first
      | ((try rw [if_neg hw'] at h); injection h with h; subst h; exact ⟨rfl, by simp [hdw'], rfl⟩)
      | (rename_i hz; exact absurd hz hw')
  · intro st r c hc h
    simp only [dstep, hc] at h
    split at h
    · cases h
    all_goals first
      | ((try rw [if_neg hw'] at h); injection h with h; subst h; exact ⟨rfl, rfl, rfl⟩)
      | (rename_i hz; exact absurd hz hw')
  · intro r h
    simp only [dstep] at h
    cases hc : d.clear with
    | none => simp [hc] at h
    | some c =>
      simp only [hc] at h
      split at h
      · rename_i hle
        have : c = d.now := Nat.le_antisymm hle (i.clear_ge c hc)
        subst this
        split at h
        · rename_i he; injection h with h; subst h; exact ⟨rfl, rfl, by simp [he]⟩
        · rename_i he; injection h with h; subst h; exact ⟨rfl, rfl, by simp [he]⟩
      · cases h
  · intro c hc ops r hops h
    have key2 : ∀ (ops : List DOp) (d1 : Dev) (r : Dev × List DObs), d1.window ≠ 0 → d1.clear = some c →
        (∀ op ∈ ops, op ≠ .pass) → drun d1 ops = some r → r.2 = [] ∧ r.1.clear = some c := by
      intro ops
      induction ops with
      | nil => intro d1 r _ hc1 _ h; simp [drun] at h; subst h; exact ⟨rfl, hc1⟩
      | cons op ops ih =>
        intro d1 r hwd hc1 hops h
        obtain ⟨r1, r2, h1, h2, rfl⟩ := drun_cons h
        have k : r1.2 = [] ∧ r1.1.clear = some c ∧ r1.1.window ≠ 0 := by
          cases op with
          | change st =>
            simp only [dstep, hc1] at h1
            split at h1
            · cases h1
            all_goals first
              | ((try rw [if_neg hwd] at h1); injection h1 with h1; subst h1; first | exact ⟨rfl, rfl, hwd⟩ | exact ⟨rfl, hc1, hwd⟩)
              | (rename_i hz; exact absurd hz hwd)
          | to t =>
            simp only [dstep] at h1
            split at h1
            · injection h1 with h1; subst h1; exact ⟨rfl, hc1, hwd⟩
            · cases h1
          | pass => exact absurd rfl (hops .pass (by simp))
        obtain ⟨a, b⟩ := ih r1.1 r2 k.2.2 k.2.1 (fun o ho => hops o (by simp [ho])) h2
        exact ⟨by simp [k.1, a], b⟩
    exact key2 ops d r hw' hc hops h

/-- the window model is exercised: a bounce inside the window is swallowed, the window closes with a catch-up post -/
example : (drun { window := 2, state := false, posted := false }
    [.change true, .to 1, .change false, .to 2, .pass, .change true, .to 3, .change false, .change true, .to 4, .pass]).map (·.2)
    = some [.post true, .post false, .post true] := by decide

end MpfVerif.C03
