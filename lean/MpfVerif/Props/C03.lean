import MpfVerif.Lemmas.Switch
import MpfVerif.Lemmas.SwitchNet
/-!
# C03 — Switch state mirrors the hardware; handlers fire once per real change

Property theorems about `Model/Switch.lean` (the switch controller's state for one switch; switches are independent
in the controller, the driver runs one instance per switch), the model `harness/corr/C03.py` runs against the real
`SwitchController`.  All statements are over every op sequence — raw/logical reports, resyncs, handler registration and
removal, `is_active`-queries, mute/unmute, monitors, time steps and wake-ups (= every timeline, every coincidence between
changes and deadlines) — and over every assignment `P` of behaviours to callbacks: a callback may register and remove
handlers of its own switch (itself, a peer, one that is later in the same walk or in the same deadline bucket, for either
state, timed or untimed) while the change or the expired bucket is being dispatched.
Callbacks that report a switch change themselves (re-entrant `process_switch`) or act on another switch, and monitors that do
either, are the subject of the second model `Model/SwitchNet.lean` (section "re-entrant dispatch" at the end of this file).
-/
namespace MpfVerif.C03
open MpfVerif.Switch

/-- the logical state of the last report of any kind (raw/logical report, resync, poll) in an op sequence -/
def lastReported (invert : Bool) : List Op → Option Bool
  | [] => none
  | op :: r => (lastReported invert r).orElse (fun _ => reported invert op)

/-- **state_is_last_report** (with `nc_inversion`).  After any op sequence — whatever the callbacks do — the logical state
is the logical value of the last report: the reported value itself for a logical report, the reported value inverted on an
NC switch for a raw report, a resync or a poll (`reported`), or the initial state if nothing was reported; `invert` never
changes; and, polls aside (they overwrite the state silently), if the raw state was the inverse image of the logical one it
still is (`hw = state xor invert`), i.e. `hw_state` is the last raw value. -/
theorem state_is_last_report (P : Prog) (ops : List Op) : ∀ (s : Sw) (r : Sw × List Obs), run P s ops = some r →
    r.1.invert = s.invert ∧ r.1.state = (lastReported s.invert ops).getD s.state ∧
    (NoPoll ops → s.hw = (s.state != s.invert) → r.1.hw = (r.1.state != r.1.invert)) := by
  induction ops with
  | nil => intro s r h; simp [run] at h; subst h; simp [lastReported]
  | cons op ops ih =>
    intro s r h
    obtain ⟨r1, r2, h1, h2, rfl⟩ := run_cons h
    obtain ⟨a1, a2, a3⟩ := ih r1.1 r2 h2
    obtain ⟨b1, b2, b3, _⟩ := step_core P s op r1 h1
    refine ⟨by rw [a1, b1], ?_, ?_⟩
    · show r2.1.state = _
      rw [a2, b1, b2]
      simp only [lastReported]
      cases lastReported s.invert ops <;> simp [Option.orElse]
    · intro hp hh
      exact a3 (fun o ho => hp o (by simp [ho])) (b3 (hp op (by simp)) hh)

/-- **duplicate_silent.**  A report whose logical value equals the current state changes nothing at all (no field of
the controller state), calls no handler and no monitor. -/
theorem duplicate_silent (P : Prog) (s : Sw) (l v : Bool) (h : logicalOf s.invert l v = s.state) :
    step P s (.report l v) = some (s, []) := by
  simp [step, reportL_dup P s _ h]

/-- all untimed registrations for `st`, as calls at instant `t` -/
def untimedCalls (s : Sw) (st : Bool) (t : Nat) : List Obs :=
  ((s.reg st).filter (fun x => x.ms = 0)).map (fun x => Obs.call x.cb st 0 t)

/-- **untimed_once_per_change.**  A report that really changes an unmuted switch into state `st` produces `calls ++ monitor`
where `calls` is a sub-sequence of the untimed handlers that were registered for `st` when the change happened — each at
most once, in registration order, at that instant, and nothing else (timed handlers only get a deadline; whatever a callback
registers during the walk is not called in this round) — and it is *exactly* that list, once each, unless a callback that
runs removes a handler of this state (the removed one is then skipped, see `removed_in_callback_never_fires`). -/
theorem untimed_once_per_change (P : Prog) (s : Sw) (l v : Bool) (r : Sw × List Obs)
    (hne : logicalOf s.invert l v ≠ s.state) (hm : s.mutes = []) (h : step P s (.report l v) = some r) :
    ∃ calls, r.2 = calls ++ (if s.mon then [Obs.monitor (logicalOf s.invert l v)] else []) ∧
      List.Sublist calls (untimedCalls s (logicalOf s.invert l v) s.now) ∧
      ((∀ x ∈ s.reg (logicalOf s.invert l v), x.ms = 0 → cancOf (logicalOf s.invert l v) (P x.cb) = []) →
        calls = untimedCalls s (logicalOf s.invert l v) s.now) := by
  simp only [step] at h
  injection h with h; subst h
  refine ⟨(callHandlers P (logicalOf s.invert l v) s.now [] ((changed s (logicalOf s.invert l v)).reg (logicalOf s.invert l v))
    (changed s (logicalOf s.invert l v))).2, ?_, ?_, ?_⟩
  · simp [reportL, hne, changed, hm]
  · have := callHandlers_sublist P (logicalOf s.invert l v) s.now
      ((changed s (logicalOf s.invert l v)).reg (logicalOf s.invert l v)) [] (changed s (logicalOf s.invert l v))
    rw [changed_reg] at this
    exact this
  · intro hc
    rw [changed_reg] at *
    exact callHandlers_obs P _ _ _ _ hc

/-- **added_in_walk_not_called_this_round.**  A handler that was not registered for the new state when the change happened
is not called in this round, even if a callback of this round registers it (the walk runs over a copy of the list). -/
theorem added_in_walk_not_called_this_round (P : Prog) (s : Sw) (l v : Bool) (r : Sw × List Obs) (cb : Nat)
    (hnew : (⟨cb, 0⟩ : Reg) ∉ s.reg (logicalOf s.invert l v)) (h : step P s (.report l v) = some r) :
    ∀ t, Obs.call cb (logicalOf s.invert l v) 0 t ∉ r.2 := by
  simp only [step] at h
  injection h with h; subst h
  intro t ht
  unfold reportL at ht
  split at ht
  · simp at ht
  · simp only at ht
    rcases List.mem_append.mp ht with d | d
    · split at d
      · have sub := callHandlers_sublist P (logicalOf s.invert l v) s.now
          ((changed s (logicalOf s.invert l v)).reg (logicalOf s.invert l v)) [] (changed s (logicalOf s.invert l v))
        rw [changed_reg] at sub d
        obtain ⟨x, hx, e⟩ := List.mem_map.mp (sub.subset d)
        injection e with e1 e2 e3 e4
        apply hnew
        have : x = ⟨cb, 0⟩ := by
          have := (List.mem_filter.mp hx).2
          cases x; simp_all
        exact this ▸ (List.mem_filter.mp hx).1
      · simp at d
    · split at d <;> simp at d

/-- **muted_change_calls_nothing.**  A change of a muted switch updates the state (and cancels the pending deadlines) but
calls no handler and schedules none; a monitor is still told, once. -/
theorem muted_change_calls_nothing (P : Prog) (s : Sw) (l v : Bool) (r : Sw × List Obs)
    (hne : logicalOf s.invert l v ≠ s.state) (hm : s.mutes ≠ []) (h : step P s (.report l v) = some r) :
    r.2 = (if s.mon then [Obs.monitor (logicalOf s.invert l v)] else []) ∧ r.1.timed = [] ∧ r.1.wake = none ∧
    r.1.state = logicalOf s.invert l v := by
  simp only [step] at h
  injection h with h; subst h
  simp [reportL, hne, changed, hm]

/-- **monitor_once_per_change.**  A monitor hears of every real change exactly once, with the new logical state, after the
handlers — muted or not; (by `duplicate_silent`) never of a duplicate. -/
theorem monitor_once_per_change (P : Prog) (s : Sw) (l v : Bool) (r : Sw × List Obs)
    (hne : logicalOf s.invert l v ≠ s.state) (h : step P s (.report l v) = some r) :
    r.2.filter (fun o => match o with | .monitor _ => true | _ => false)
      = (if s.mon then [Obs.monitor (logicalOf s.invert l v)] else []) := by
  simp only [step] at h
  injection h with h; subst h
  unfold reportL
  simp only [hne, if_false, List.filter_append]
  have h1 : ∀ (x : Sw × List Obs), List.Sublist x.2 (untimedCalls s (logicalOf s.invert l v) s.now) →
      x.2.filter (fun o => match o with | .monitor _ => true | _ => false) = [] := by
    intro x hx
    apply List.filter_eq_nil_iff.mpr
    intro o ho
    obtain ⟨y, _, e⟩ := List.mem_map.mp (hx.subset ho)
    subst e; simp
  split
  · have sub := callHandlers_sublist P (logicalOf s.invert l v) s.now
      ((changed s (logicalOf s.invert l v)).reg (logicalOf s.invert l v)) [] (changed s (logicalOf s.invert l v))
    rw [changed_reg] at sub ⊢
    rw [h1 _ sub]
    split <;> simp
  · split <;> simp

/-- **resync_mirrors_hardware.**  A resync (hardware snapshot) leaves `hw_state` equal to the hardware and the logical state
its image under NO/NC; if the switch already was in that logical state nothing else changes and nothing is called; otherwise it
is processed exactly like a logical report of the new state (handlers fire for the differences only). -/
theorem resync_mirrors_hardware (P : Prog) (s : Sw) (hw : Bool) (r : Sw × List Obs) (h : step P s (.resync hw) = some r) :
    r.1.hw = hw ∧ r.1.state = (hw != s.invert) ∧
    ((hw != s.invert) = s.state → r = ({ s with hw := hw }, [])) ∧
    step P s (.resync hw) = step P { s with hw := hw } (.report true (hw != s.invert)) := by
  obtain ⟨_, b2, _, b4⟩ := step_core P s (.resync hw) r h
  refine ⟨b4 hw rfl, by simpa [reported] using b2, ?_, by simp [step, logicalOf]⟩
  intro e
  simp only [step] at h
  injection h with h; subst h
  exact reportL_dup P { s with hw := hw } _ e

/-- **poll_in_sync_is_noop.**  `verify_switches` / `update_switches_from_hw` while MPF agrees with the hardware changes
nothing and calls nothing — so such polls can be dropped from any timeline (the theorems below exclude polls). -/
theorem poll_in_sync_is_noop (P : Prog) (s : Sw) (hw : Bool) (h : (hw != s.invert) = s.state) :
    step P s (.poll hw) = some (s, []) := by
  simp only [step, h]

/-- **poll_silent_change_witness.**  A poll that finds the hardware in the other state overwrites `state` silently: no handler
is called, the time of the last change and the pending deadlines stay — a hold-time handler for the *old* state still fires
although the switch is (for MPF) no longer in that state.  (`update_switches_from_hw` is documented to work silently; polls
are therefore excluded from `timed_only_when_held`.) -/
theorem poll_silent_change_witness :
    (run (fun _ => []) {} [.add true 2 7, .report true true, .to 1, .poll false, .to 2, .wake]).map
      (fun r => (r.2, r.1.state)) = some ([.call 7 true 2 2], false) := by decide

/-- **wake_is_min_deadline.**  In every state reachable from a fresh switch (whatever the callbacks do), the single
scheduled wake-up is exactly the minimum of the pending deadlines (none iff none is pending) and it is not overdue; hence
every pending deadline `k` satisfies `now ≤ wake ≤ k`: no deadline can be slept through. -/
theorem wake_is_min_deadline (P : Prog) (invert state hw : Bool) (ops : List Op) (r : Sw × List Obs) (hp : NoPoll ops)
    (h : run P { invert := invert, state := state, hw := hw } ops = some r) :
    r.1.wake = minKey r.1.timed ∧
    ∀ kv ∈ r.1.timed, ∃ w, r.1.wake = some w ∧ r.1.now ≤ w ∧ w ≤ kv.1 := by
  have i := run_inv P ops _ r (init_inv invert state hw) hp h
  refine ⟨i.wake_min, ?_⟩
  intro kv hkv
  cases hm : minKey r.1.timed with
  | none => rw [minKey_none.mp hm] at hkv; simp at hkv
  | some w =>
    have hw' : r.1.wake = some w := by rw [i.wake_min, hm]
    exact ⟨w, hw', i.wake_ge w hw', (minKey_spec hm).2 kv.1 (List.mem_map.mpr ⟨kv, hkv, rfl⟩)⟩

/-- **timed_only_when_held** (the "only if" half of `timed_iff_held`, with the exact instant).  In every reachable
state, every handler call made by a wake-up — including the calls of handlers that a callback of this very wake-up
registered or left in place — is for a handler with hold time `ms ≠ 0` registered for the *current* state, and happens at
exactly `last change + ms`: the switch went into that state `ms` ago and has not changed since. -/
theorem timed_only_when_held (P : Prog) (invert state hw : Bool) (ops : List Op) (s : Sw) (tr : List Obs) (r : Sw × List Obs)
    (hp : NoPoll ops) (h : run P { invert := invert, state := state, hw := hw } ops = some (s, tr))
    (hs : step P s .wake = some r) :
    ∀ o ∈ r.2, ∃ cb st ms t, o = Obs.call cb st ms t ∧
      t = s.now ∧ st = s.state ∧ ms ≠ 0 ∧ ∃ lc, s.lastChange = some lc ∧ t = lc + ms := by
  have i := run_inv P ops _ (s, tr) (init_inv invert state hw) hp h
  intro o ho
  simp only [step] at hs
  cases hw' : s.wake with
  | none => simp [hw'] at hs
  | some w =>
    simp only [hw'] at hs
    split at hs
    · rename_i hle
      injection hs with hs; subst hs
      have i0 : InvE { s with wake := none } := ⟨i.entries, i.lc_le⟩
      obtain ⟨_, _, _, a4⟩ := procKeys_spec P s.now (s.timed.map (·.1)) { s with wake := none } i0 rfl
      obtain ⟨e, d1, d2, d3, lc, k, d4, d5, d6, d7⟩ := a4 o ho
      have hm : minKey s.timed = some w := by rw [← i.wake_min, hw']
      have := (minKey_spec hm).2 k d6
      have hge : s.now ≤ w := i.wake_ge w hw'
      exact ⟨e.cb, e.st, e.ms, s.now, d1, rfl, d2, d3, lc, d4, by omega⟩
    · simp at hs

/-- **removed_never_fires.**  After `remove st ms cb` the handler is neither registered nor pending (`Absent`), and along
every continuation in which nobody registers it again (no `add` op, no callback that registers it) it stays absent and is
never called — whatever reports, wake-ups, other registrations and removals, by ops or by callbacks, happen. -/
theorem removed_never_fires (P : Prog) (s : Sw) (st : Bool) (ms cb : Nat) (r0 : Sw × List Obs) (hP : NoAdd P st ms cb)
    (h0 : step P s (.remove st ms cb) = some r0) (ops : List Op) (hops : ∀ op ∈ ops, op ≠ .add st ms cb)
    (r : Sw × List Obs) (h : run P r0.1 ops = some r) :
    Absent r0.1 st ms cb ∧ Absent r.1 st ms cb ∧ ∀ t, Obs.call cb st ms t ∉ r.2 := by
  have a0 : Absent r0.1 st ms cb := by
    simp only [step] at h0
    injection h0 with h0; subst h0
    exact removeH_makes_absent s st ms cb
  exact ⟨a0, absent_run P st ms cb hP ops r0.1 r a0 hops h⟩

/-- **removed_in_callback_never_fires.**  The removal may happen *inside* a dispatch: if, during one step (the walk of a
change or a wake-up processing its expired buckets), a callback `c` whose actions contain `remove st ms cb` is called, then
handler `(st, ms, cb)` is not called in the rest of that very step — not later in the same walk, not later in the same
deadline bucket, not in a later bucket — and (as in `removed_never_fires`) never afterwards until somebody registers it again. -/
theorem removed_in_callback_never_fires (P : Prog) (s : Sw) (op : Op) (r1 : Sw × List Obs) (st : Bool) (ms cb : Nat)
    (hP : NoAdd P st ms cb) (pre post : List Obs) (c : Nat) (st' : Bool) (ms' t : Nat)
    (h1 : step P s op = some r1) (hsplit : r1.2 = pre ++ Obs.call c st' ms' t :: post) (hrm : Act.remove st ms cb ∈ P c)
    (ops : List Op) (hops : ∀ op ∈ ops, op ≠ .add st ms cb) (r : Sw × List Obs) (h : run P r1.1 ops = some r) :
    (∀ t', Obs.call cb st ms t' ∉ post) ∧ Absent r.1 st ms cb ∧ ∀ t', Obs.call cb st ms t' ∉ r.2 := by
  obtain ⟨a1, a2⟩ := step_after P s op r1 st ms cb hP pre post c st' ms' t h1 hsplit hrm
  exact ⟨a2, absent_run P st ms cb hP ops r1.1 r a1 hops h⟩

/-- **late_add_does_not_fire / catch-up at the original deadline** (the repaired D1): a timed handler added while the
switch is already in its state — by an op or by a callback — gets the *original* deadline `last change + ms` if that is
still ahead, and nothing is scheduled for it if that instant has been reached. -/
theorem add_catches_up_only_before_deadline (s : Sw) (st : Bool) (ms cb lc : Nat) (hl : s.lastChange = some lc) :
    (ms ≠ 0 ∧ s.now < lc + ms ∧ st = s.state →
      ∃ kv ∈ (addH s st ms cb).timed, kv.1 = lc + ms ∧ (⟨cb, st, ms⟩ : TEntry) ∈ kv.2) ∧
    (¬ (ms ≠ 0 ∧ s.now < lc + ms ∧ st = s.state) → (addH s st ms cb).timed = s.timed ∧ (addH s st ms cb).wake = s.wake) := by
  obtain ⟨_, _, _, _, _, f6, f7, _, _⟩ := setReg_fields s st (s.reg st ++ [⟨cb, ms⟩])
  unfold addH
  simp only [hl]
  split
  · rename_i c
    refine ⟨fun _ => ?_, fun n => absurd c n⟩
    simp only [addTimed]
    generalize (s.setReg st (s.reg st ++ [⟨cb, ms⟩])).timed = l
    induction l with
    | nil => exact ⟨(lc + ms, [⟨cb, st, ms⟩]), by simp [insertTimed], rfl, by simp⟩
    | cons kv0 rest ih =>
      obtain ⟨k0, es⟩ := kv0
      simp only [insertTimed]
      split
      · rename_i e; exact ⟨(k0, es ++ [⟨cb, st, ms⟩]), by simp, e, by simp⟩
      · obtain ⟨kv, a, b, d⟩ := ih
        exact ⟨kv, by simp [a], b, d⟩
  · rename_i c
    exact ⟨fun y => absurd y c, fun _ => ⟨f6, f7⟩⟩

/-! ## the statements are not vacuous (kernel evaluation on concrete timelines) -/

/-- NC switch, raw reports, duplicate, handler added inside the interval (fires at the original deadline), at the
deadline (does not), duplicate registration removed once (neither copy fires) -/
example : (run (fun _ => []) { invert := true, state := false, hw := true }
    [.add true 3 1, .report false false, .to 1, .add true 3 2, .add true 2 3, .add true 2 3, .remove true 2 3,
     .report true true, .to 2, .wake, .to 3, .add true 3 4, .wake, .query true 3, .report false true, .to 9]).map
      (fun r => (r.2, r.1.state, r.1.hw, r.1.wake))
    = some ([.call 1 true 3 3, .call 2 true 3 3, .answer true], false, true, none) := by decide

/-- time cannot pass the wake-up; a wake-up cannot run early -/
example : run (fun _ => []) {} [.add true 2 0, .report true true, .to 3] = none ∧
    run (fun _ => []) {} [.add true 2 0, .report true true, .to 1, .wake] = none := by decide

/-- callbacks that mutate the handlers during dispatch: callback 1 removes handler 2 (later in the same walk / the same
bucket) and registers handler 3 -/
def progX : Prog := fun c => if c = 1 then [.remove true 0 2, .remove true 2 2, .add true 0 3, .add true 2 3] else []

/-- untimed walk: 2 is skipped (removed by 1 before its turn), 3 (added by 1) is not called in this round but at the next
change; the timed 3 added in the walk catches up with the deadline of the change -/
example : (run progX {} [.add true 0 1, .add true 0 2, .add true 0 4, .monitor true, .report true true,
      .report true false, .report true true]).map (·.2)
    = some [.call 1 true 0 0, .call 4 true 0 0, .monitor true, .monitor false,
            .call 1 true 0 0, .call 4 true 0 0, .call 3 true 0 0, .monitor true] := by decide

/-- timed bucket: 1 and 2 share the deadline; 1 runs first and removes 2, which therefore does not fire; the handler 3 that
1 registers with the same hold time does not fire either (its deadline is not ahead any more) -/
example : (run progX {} [.add true 2 1, .add true 2 2, .add true 2 4, .report true true, .to 2, .wake]).map
      (fun r => (r.2, r.1.wake, r.1.timed))
    = some ([.call 1 true 2 2, .call 4 true 2 2], none, []) := by decide

/-- a callback of an expired bucket registers a handler with a longer hold time: it gets the original deadline and the
wake-up is re-armed for it (one wake-up, at the minimum of what is pending) -/
example : (run (fun c => if c = 1 then [.add true 3 5] else []) {}
      [.add true 1 1, .add true 2 6, .report true true, .to 1, .wake, .to 2, .wake, .to 3, .wake]).map (·.2)
    = some [.call 1 true 1 1, .call 6 true 2 2, .call 5 true 3 3] := by decide

/-- muted switch: the change is recorded, nothing is called; resync: handlers fire for the difference only -/
example : (run (fun _ => []) {} [.add true 0 1, .mute 4, .report true true, .unmute 4, .resync true, .resync false,
      .add false 0 2, .resync false, .resync true]).map (fun r => (r.2, r.1.state, r.1.hw))
    = some ([.call 1 true 0 0], true, true) := by decide


/-! ## Switch device events (`Dev` in `Model/Switch.lean`) -/

/-- the posts a history of handler calls should produce when there is no ignore window: one per real change, in order -/
def changesOf : List DOp → List DObs
  | [] => []
  | .change st :: r => .post st :: changesOf r
  | _ :: r => changesOf r

/-- **events_once.**  Without an ignore window, along every history the device posts its configured events for the new
state exactly once per real change reported by the controller, in order, and nothing else ever posts (time passing
posts nothing; no window timer exists).  With `untimed_once_per_change`/`duplicate_silent` (the controller calls the
device's handler once per real change and never for a duplicate) this is "events once per real change". -/
theorem events_once (ops : List DOp) : ∀ (d : Dev) (r : Dev × List DObs), d.window = 0 → d.clear = none →
    drun d ops = some r → r.2 = changesOf ops ∧ r.1.window = 0 ∧ r.1.clear = none := by
  induction ops with
  | nil => intro d r hw hc h; simp [drun] at h; subst h; exact ⟨rfl, hw, hc⟩
  | cons op ops ih =>
    intro d r hw hc h
    obtain ⟨r1, r2, h1, h2, rfl⟩ := drun_cons h
    have k : r1.2 = changesOf [op] ∧ r1.1.window = 0 ∧ r1.1.clear = none := by
      cases op with
      | change st =>
        simp only [dstep, hw] at h1
        split at h1
        · cases h1
        · simp at h1; subst h1; exact ⟨rfl, rfl, hc⟩
      | to t =>
        simp only [dstep] at h1
        split at h1
        · injection h1 with h1; subst h1; exact ⟨rfl, hw, hc⟩
        · cases h1
      | pass => simp [dstep, hc] at h1
    obtain ⟨a, b, c⟩ := ih r1.1 r2 k.2.1 k.2.2 h2
    refine ⟨?_, b, c⟩
    show r1.2 ++ r2.2 = changesOf (op :: ops)
    rw [k.1, a]
    cases op <;> rfl

/-- **recycle_window.**  With an ignore window `w > 0`, in every state reachable from a fresh device:
(a) a change while no window is open posts the new state's events once and opens a window that ends exactly `w` later;
(b) a change while a window is open posts nothing;
(c) the window's end is never slept through, and when `_recycle_passed` runs it is exactly at that instant; it closes the
window and posts the current state's events iff the switch is then in the other state than the one that opened the window
(the catch-up post), nothing otherwise;
(d) hence at most one post per window: while a window is open and its end has not run, nothing at all is posted;
(e) whenever no window is open, the last post is the current state. -/
theorem recycle_window (w : Nat) (st0 : Bool) (ops0 : List DOp) (d : Dev) (tr0 : List DObs) (hw : w ≠ 0)
    (hreach : drun { window := w, state := st0, posted := st0 } ops0 = some (d, tr0)) :
    (d.window = w) ∧
    (∀ st r, d.clear = none → dstep d (.change st) = some r →
        r.2 = [.post st] ∧ r.1.clear = some (d.now + w) ∧ r.1.state = st) ∧
    (∀ st r c, d.clear = some c → dstep d (.change st) = some r → r.2 = [] ∧ r.1.clear = some c ∧ r.1.state = st) ∧
    (∀ r, dstep d .pass = some r → d.clear = some d.now ∧ r.1.clear = none ∧
        r.2 = (if d.state = d.opened then [] else [.post d.state])) ∧
    (∀ c, d.clear = some c → ∀ ops r, (∀ op ∈ ops, op ≠ .pass) → drun d ops = some r → r.2 = [] ∧ r.1.clear = some c) ∧
    (d.clear = none → d.posted = d.state) := by
  -- reachable states keep the window size and the invariant
  have key : ∀ (ops : List DOp) (d0 : Dev) (r : Dev × List DObs), DInv d0 → d0.window = w → drun d0 ops = some r →
      DInv r.1 ∧ r.1.window = w := by
    intro ops
    induction ops with
    | nil => intro d0 r i hw0 h; simp [drun] at h; subst h; exact ⟨i, hw0⟩
    | cons op ops ih =>
      intro d0 r i hw0 h
      obtain ⟨r1, r2, h1, h2, rfl⟩ := drun_cons h
      have i1 := dstep_inv d0 op r1 i h1
      have w1 : r1.1.window = w := by
        cases op with
        | change st =>
          simp only [dstep] at h1
          split at h1
          · cases h1
          · split at h1
            · injection h1 with h1; subst h1; exact hw0
            · cases hc : d0.clear <;> (simp only [hc] at h1; injection h1 with h1; subst h1; exact hw0)
        | to t =>
          simp only [dstep] at h1
          split at h1
          · injection h1 with h1; subst h1; exact hw0
          · cases h1
        | pass =>
          simp only [dstep] at h1
          cases hc : d0.clear with
          | none => simp [hc] at h1
          | some c =>
            simp only [hc] at h1
            split at h1
            · split at h1 <;> (injection h1 with h1; subst h1; exact hw0)
            · cases h1
      exact ih r1.1 r2 i1 w1 h2
  obtain ⟨i, hdw⟩ := key ops0 _ (d, tr0) ⟨by simp, by simp, by simp, by simp⟩ rfl hreach
  have hdw' : d.window = w := hdw
  have hw' : d.window ≠ 0 := by rw [hdw']; exact hw
  refine ⟨hdw, ?_, ?_, ?_, ?_, i.closed_sync⟩
  · intro st r hc h
    simp only [dstep, hc] at h
    split at h
    · cases h
    all_goals first
      | ((try rw [if_neg hw'] at h); injection h with h; subst h; exact ⟨rfl, by simp [hdw'], rfl⟩)
      | (rename_i hz; exact absurd hz hw')
  · intro st r c hc h
    simp only [dstep, hc] at h
    split at h
    · cases h
    all_goals first
      | ((try rw [if_neg hw'] at h); injection h with h; subst h; exact ⟨rfl, rfl, rfl⟩)
      | (rename_i hz; exact absurd hz hw')
  · intro r h
    simp only [dstep] at h
    cases hc : d.clear with
    | none => simp [hc] at h
    | some c =>
      simp only [hc] at h
      split at h
      · rename_i hle
        have : c = d.now := Nat.le_antisymm hle (i.clear_ge c hc)
        subst this
        split at h
        · rename_i he; injection h with h; subst h; exact ⟨rfl, rfl, by simp [he]⟩
        · rename_i he; injection h with h; subst h; exact ⟨rfl, rfl, by simp [he]⟩
      · cases h
  · intro c hc ops r hops h
    have key2 : ∀ (ops : List DOp) (d1 : Dev) (r : Dev × List DObs), d1.window ≠ 0 → d1.clear = some c →
        (∀ op ∈ ops, op ≠ .pass) → drun d1 ops = some r → r.2 = [] ∧ r.1.clear = some c := by
      intro ops
      induction ops with
      | nil => intro d1 r _ hc1 _ h; simp [drun] at h; subst h; exact ⟨rfl, hc1⟩
      | cons op ops ih =>
        intro d1 r hwd hc1 hops h
        obtain ⟨r1, r2, h1, h2, rfl⟩ := drun_cons h
        have k : r1.2 = [] ∧ r1.1.clear = some c ∧ r1.1.window ≠ 0 := by
          cases op with
          | change st =>
            simp only [dstep, hc1] at h1
            split at h1
            · cases h1
            all_goals first
              | ((try rw [if_neg hwd] at h1); injection h1 with h1; subst h1; first | exact ⟨rfl, rfl, hwd⟩ | exact ⟨rfl, hc1, hwd⟩)
              | (rename_i hz; exact absurd hz hwd)
          | to t =>
            simp only [dstep] at h1
            split at h1
            · injection h1 with h1; subst h1; exact ⟨rfl, hc1, hwd⟩
            · cases h1
          | pass => exact absurd rfl (hops .pass (by simp))
        obtain ⟨a, b⟩ := ih r1.1 r2 k.2.2 k.2.1 (fun o ho => hops o (by simp [ho])) h2
        exact ⟨by simp [k.1, a], b⟩
    exact key2 ops d r hw' hc hops h

/-- the window model is exercised: a bounce inside the window is swallowed, the window closes with a catch-up post -/
example : (drun { window := 2, state := false, posted := false }
    [.change true, .to 1, .change false, .to 2, .pass, .change true, .to 3, .change false, .change true, .to 4, .pass]).map (·.2)
    = some [.post true, .post false, .post true] := by decide

/-! ## Re-entrant dispatch: several switches, handlers and monitors that report changes and touch other switches
(`Model/SwitchNet.lean`; all statements for every amount of fuel, every behaviour `P` of callbacks and monitors) -/

section Reentrant
open MpfVerif.SwitchNet

/-- **reentrant_state_is_last_report.**  Along every run of the multi-switch controller — platform reports, registrations,
removals, time steps, wake-ups, and everything the handlers and monitors do from inside the dispatch: reports of the same
switch or of other switches (nested to any depth the fuel allows), registrations and removals on any switch — every switch
that exists stays, and its logical state at the end is the value of the *last* `process_switch` call for it in the trace
(top-level or nested, `NObs.rep`), or its initial state if there was none. -/
theorem reentrant_state_is_last_report (fuel : Nat) (P : NProg) (ops : List NOp) (n : Net) (r : Net × List NObs)
    (h : runN fuel P n ops = some r) (i : Nat) (s : NSw) (hs : n.sws[i]? = some s) :
    ∃ s', r.1.sws[i]? = some s' ∧ s'.state = (lastRep i r.2).getD s.state := by
  have t := track_run fuel P ops n r h i
  simp only [stateOf, hs, Option.map_some] at t
  cases h' : r.1.sws[i]? with
  | none => simp [h'] at t
  | some s' => simp only [h', Option.map_some, Option.some.injEq] at t; exact ⟨s', rfl, t⟩

/-- **reentrant_duplicate_silent.**  A report — from the platform or from inside any handler or monitor — whose logical value
is the state the switch is in changes nothing in the whole controller and invokes nothing: the only trace is the report itself. -/
theorem reentrant_duplicate_silent (f : Nat) (P : NProg) (d i : Nat) (l v : Bool) (n : Net) (s : NSw)
    (hd : ¬ n.maxDepth < d) (hs : n.sws[i]? = some s) (hdup : logicalOf s.invert l v = s.state) :
    runAct (f + 1) P d (.report i l v) n = (n, [.rep i s.state]) := by
  simp [runAct, hd, hs, hdup]

/-- **changed_switch_abandons_its_wakeup** (the repaired KeyError).  While the wake-up of switch `i` walks its expired
deadlines, as soon as a callback has reported a real change of `i` itself (`epoch` moved on — `_cancel_timed_handlers` dropped
the dict the loops were walking), neither loop calls anything more or touches the state: the hold times of the old state are
void, whatever is pending now belongs to the new change. -/
theorem changed_switch_abandons_its_wakeup (f : Nat) (P : NProg) (i k ep : Nat) (n : Net) (s : NSw)
    (hs : n.sws[i]? = some s) (he : s.epoch ≠ ep) :
    (∀ e es, procEntriesN f P i k ep (e :: es) n = (n, [])) ∧ (∀ ks, procKeysN f P i ep (k :: ks) n = (n, [])) := by
  constructor
  · intro e es; simp [procEntriesN, hs, he]
  · intro ks; simp [procKeysN, hs, he]

/-- **stale_walk_arms_nothing** (the repaired double arming).  While `_call_handlers` walks the handlers of a change of switch
`i`, once a callback of that walk has reported the next change of `i` (the switch's change counter is no longer the one of the
change being walked — even if the switch is back in the same state), a hold-time registration met later in the walk is not
armed: the walk goes on as if it were not there.  (Its hold time, if the switch is in that state, was armed by the newer
change's own walk — once.) -/
theorem stale_walk_arms_nothing (f : Nat) (P : NProg) (d i : Nat) (st : Bool) (ep : Nat) (r : NReg) (rest : List NReg) (n : Net)
    (s : NSw) (hs : n.sws[i]? = some s) (hlive : (s.reg st).any (fun x => x.id == r.id) = true) (hms : r.ms ≠ 0)
    (he : s.epoch ≠ ep) :
    walk (f + 1) P d i st ep (r :: rest) n = walk f P d i st ep rest n := by
  simp [walk, hs, hlive, hms, he]

/-- **wait_future_resolves_once_at_first_matching_change.**  A `wait_for_switch` / `wait_for_any_switch` future is a set of
ordinary handlers (callback id `id`, one per switch of the list, registered for the awaited state and hold time) whose callback
is `_wait_handler`.  Along every run of the controller — whatever else happens, including further matching changes before the
done-callback has removed the handlers — the future is resolved by exactly the *first* call of one of its handlers (with that
switch, at that instant), `set_result` runs exactly once if there is such a call and never otherwise; by the controller
theorems a call happens only for a real change into the awaited state (held for the hold time), never for a duplicate, and
not after the handlers were removed (cancellation, `_future_done`). -/
theorem wait_future_resolves_once_at_first_matching_change (fuel : Nat) (P : NProg) (ops : List NOp) (n : Net)
    (r : Net × List NObs) (_h : runN fuel P n ops = some r) (id : Nat) :
    (futAlong id {} r.2).result = firstCall id r.2 ∧
    (futAlong id {} r.2).sets = (if (firstCall id r.2).isSome then 1 else 0) ∧
    ∀ more, (firstCall id r.2).isSome → futAlong id {} (r.2 ++ more) = futAlong id {} r.2 := by
  have key := futAlong_fresh id r.2 0
  refine ⟨?_, ?_, ?_⟩
  · show (futAlong id { result := none, sets := 0 } r.2).result = _
    rw [key]; cases firstCall id r.2 <;> rfl
  · show (futAlong id { result := none, sets := 0 } r.2).sets = _
    rw [key]; cases firstCall id r.2 <;> rfl
  · intro more hsome
    have app : ∀ (tr : List NObs) (f : Fut), futAlong id f (tr ++ more) = futAlong id (futAlong id f tr) more := by
      intro tr
      induction tr with
      | nil => intro f; rfl
      | cons o t ih => intro f; cases o <;> simp [futAlong, ih]
    rw [app]
    show futAlong id (futAlong id { result := none, sets := 0 } r.2) more = futAlong id { result := none, sets := 0 } r.2
    rw [key]
    cases hfc : firstCall id r.2 with
    | none => simp [hfc] at hsome
    | some x => exact futAlong_resolved id more _ x rfl

/-- two switches; handler 2 of switch 1 (inactive, hold 3) reports switch 1 active from inside its deadline bucket, which it
shares with handler 1: the change voids the bucket (handler 1 does not fire), nothing is left pending -/
example : (runN 40 (fun c => if c = 2 then [.report 1 true true] else []) { sws := [{}, { state := true, hw := true }] }
    [.act (.add 1 false 3 2), .act (.add 1 false 3 1), .act (.report 1 true false), .to 3, .wake 1]).map
      (fun r => (r.2, (r.1.sws.map (fun s => (s.state, s.timed.length, s.wake)))))
    = some ([.rep 1 false, .call 1 2 false 3 3, .rep 1 true], [(false, 0, none), (true, 0, none)]) := by decide +kernel

/-- an untimed handler leaves the state and comes back within the same instant while the walk is still running: the hold-time
handler behind it fires once, not once per nested walk; a handler of switch 0 reports switch 1 and a monitor hears both -/
example : (runN 60 (fun c => if c = 0 then [.report 0 true false, .report 0 true true] else if c = 5 then [.report 1 false true] else [])
      { sws := [{}, {}], mons := [9] }
    [.act (.add 0 true 0 0), .act (.add 0 true 2 1), .act (.add 0 false 0 5), .act (.report 0 true true), .to 2, .wake 0]).map
      (fun r => (r.2.filter (fun o => match o with | .call _ 1 _ _ _ => true | .mon _ 1 _ => true | _ => false),
                 r.1.sws.map (·.state)))
    = some ([.mon 9 1 true, .call 0 1 true 2 2], [true, true]) := by decide +kernel

/-- a future waiting for switch 0 or 1 to become active (handler id 500 on both): the first matching change resolves it -/
example : (runN 20 (fun _ => []) { sws := [{}, {}] }
    [.act (.add 0 true 0 500), .act (.add 1 true 0 500), .act (.report 1 true false), .to 1, .act (.report 1 true true),
     .act (.report 0 true true)]).map (fun r => futAlong 500 {} r.2)
    = some { result := some (1, 1), sets := 1 } := by decide +kernel

end Reentrant

end MpfVerif.C03
