import MpfVerif.Lemmas.Light
import MpfVerif.Lemmas.LightHw
import MpfVerif.Lemmas.BatchLight
import MpfVerif.Lemmas.LightOut
import MpfVerif.Lemmas.LightDev
/-!
# C09 — Light hardware output equals the priority stack's colour

Property theorems only (model: `Model/Light.lean`, helper lemmas: `Lemmas/Light.lean`, `Lemmas/LightHw.lean`).
`run {} ops` is the light after an arbitrary sequence of `color / remove / clear` commands, fade-out delay firings and
clock advances, starting from the empty stack.
-/
namespace MpfVerif.C09
open MpfVerif.Light

/-- After every history the stack is strictly sorted, descending, by (priority, key), and no key occurs twice. -/
theorem stack_sorted_unique_keys (ops : List Op) :
    (run {} ops).stack.Pairwise (fun a b => abv a.prio a.key b.prio b.key ∧ a.key ≠ b.key) :=
  run_induction (fun s => SortedU s.stack) step_sorted ops {} List.Pairwise.nil

/-- The logical colour is that of the top entry: after every history the first entry sorts above all others, and if it
is a colour setting (not a fade-out) `get_color()` is its colour — its destination when no fade is running, its start
colour before the fade's start, the interpolation in between — whatever lies below it. -/
theorem logical_is_top (ops : List Op) (e : Entry) (rest : List Entry) (h : (run {} ops).stack = e :: rest) :
    (∀ x ∈ rest, abv e.prio e.key x.prio x.key ∧ x.key ≠ e.key) ∧
    ∀ (now : Nat) (c : RGB), e.destC = some c →
      getColor now (e :: rest) =
        if e.destT = 0 ∨ e.destT ≤ now then c
        else if now ≤ e.startT then e.startC
        else blend e.startC c (now - e.startT) (e.destT - e.startT) := by
  constructor
  · have hs := stack_sorted_unique_keys ops
    rw [h, List.pairwise_cons] at hs
    intro x hx
    exact ⟨(hs.1 x hx).1, fun hh => (hs.1 x hx).2 hh.symm⟩
  · intro now c hc
    simp only [getColor, hc]

/-- a transparent (fade-out) entry whose fade is over, and the empty stack: the colour is that of what lies below / off -/
theorem logical_skips_finished_fade_out (now : Nat) (e : Entry) (rest : List Entry) (hc : e.destC = none)
    (ht : e.destT = 0 ∨ e.destT ≤ now) : getColor now (e :: rest) = getColor now rest := by
  simp only [getColor, hc, ht, if_true]

theorem logical_empty_is_off (now : Nat) : getColor now [] = off := rfl

/-- An interpolated component never leaves the interval of its endpoints (for every fraction `k / n ≤ 1`),
starts at the start colour and ends at the destination. -/
theorem blend_within_endpoints (s e : RGB) (k n : Nat) (hk : k ≤ n) :
    (min s.1 e.1 ≤ (blend s e k n).1 ∧ (blend s e k n).1 ≤ max s.1 e.1) ∧
    (min s.2.1 e.2.1 ≤ (blend s e k n).2.1 ∧ (blend s e k n).2.1 ≤ max s.2.1 e.2.1) ∧
    (min s.2.2 e.2.2 ≤ (blend s e k n).2.2 ∧ (blend s e k n).2.2 ≤ max s.2.2 e.2.2) :=
  ⟨blend1_between _ _ _ _ hk, blend1_between _ _ _ _ hk, blend1_between _ _ _ _ hk⟩

theorem blend_endpoints (s e : RGB) (n : Nat) (hn : 0 < n) : blend s e 0 n = s ∧ blend s e n n = e := by
  simp [blend, blend1_zero, blend1_full _ _ _ hn]

/-- the logical colour of a running fade on top of the stack lies between the fade's start colour and its target -/
theorem logical_within_fade (now : Nat) (e : Entry) (rest : List Entry) (c : RGB) (hc : e.destC = some c)
    (h1 : e.startT < now) (h2 : now < e.destT) :
    let v := getColor now (e :: rest)
    (min e.startC.1 c.1 ≤ v.1 ∧ v.1 ≤ max e.startC.1 c.1) ∧
    (min e.startC.2.1 c.2.1 ≤ v.2.1 ∧ v.2.1 ≤ max e.startC.2.1 c.2.1) ∧
    (min e.startC.2.2 c.2.2 ≤ v.2.2 ∧ v.2.2 ≤ max e.startC.2.2 c.2.2) := by
  have h3 : ¬ (e.destT = 0 ∨ e.destT ≤ now) := by omega
  have h4 : ¬ now ≤ e.startT := by omega
  simp only [getColor, hc, h3, h4, if_false]
  exact blend_within_endpoints _ _ _ _ (by omega)

/-- Removing a key restores exactly what was beneath: a colour command under key `k` (accepted or refused, with or
without fade, at any priority) followed by the removal of `k` leaves the stack that the light had without `k`. -/
theorem remove_restores (s : LSt) (c : RGB) (fade p k st : Nat) :
    (step (step s (.color c fade p k st)).1 (.remove k 0)).1.stack = s.stack.filter (fun e => decide (e.key ≠ k)) := by
  show (stepRemove (stepColor s c fade p k st).1 k 0).1.stack = removeKey k s.stack
  rw [stepRemove_zero_stack, stepColor_stack, addStack_removeKey]

/-- for a key that was not in use the stack, and hence the logical colour at every instant, is exactly as before -/
theorem remove_restores_fresh_key (s : LSt) (c : RGB) (fade p k st : Nat) (hk : ∀ e ∈ s.stack, e.key ≠ k) :
    (step (step s (.color c fade p k st)).1 (.remove k 0)).1.stack = s.stack := by
  rw [remove_restores]
  exact removeKey_absent k _ hk

/-- Removing all keys turns the light off: after removing (without fade-out) every key of a list that covers the keys
in use, the stack is empty and the logical colour is off. -/
theorem remove_all_gives_off (ks : List Nat) : ∀ (s : LSt), (∀ e ∈ s.stack, e.key ∈ ks) →
    (run s (ks.map (fun k => Op.remove k 0))).stack = [] ∧
    ∀ now, getColor now (run s (ks.map (fun k => Op.remove k 0))).stack = off := by
  induction ks with
  | nil =>
    intro s h
    have : s.stack = [] := List.eq_nil_iff_forall_not_mem.mpr (fun e he => by simpa using h e he)
    simp [run, this, getColor]
  | cons k r ih =>
    intro s h
    simp only [List.map_cons, run]
    apply ih
    intro e he
    have hst : (step s (.remove k 0)).1.stack = removeKey k s.stack := stepRemove_zero_stack s k
    rw [hst] at he
    have h1 := (List.mem_filter.mp he)
    have h2 := h e h1.1
    have h3 : e.key ≠ k := by simpa using h1.2
    rcases List.mem_cons.mp h2 with h2 | h2
    · exact absurd h2 h3
    · exact h2

theorem clear_gives_off (s : LSt) (now : Nat) : getColor now (step s .clear).1.stack = off := by
  show getColor now (schedule { s with stack := [] }).1.stack = off
  rw [schedule_stack]; rfl

/-- A new fading entry starts from the logical colour of the entries that do not sort above it (lexicographically on
(priority, key); this includes the entry of the same key it replaces): after every history, an accepted
`color(c, fade > 0, priority p, key k)` puts an entry for `k` on the stack whose start colour is the logical colour,
at that instant, of the stack restricted to the entries not above (p, k). -/
theorem fade_start_is_colour_below (ops : List Op) (c : RGB) (fade p k st : Nat) (hf : 0 < fade)
    (hacc : ¬ ((run {} ops).stack ≠ [] ∧ p < prioFromKey k (run {} ops).stack)) :
    ∃ e ∈ (step (run {} ops) (.color c fade p k st)).1.stack,
      e.key = k ∧ e.prio = p ∧ e.destC = some c ∧ e.startT = st ∧ e.destT = st + fade ∧
      e.startC = getColor (run {} ops).now
        ((run {} ops).stack.filter (fun x => !decide (abv x.prio x.key p k))) := by
  have hs : SortedU (run {} ops).stack := stack_sorted_unique_keys ops
  generalize run {} ops = s at *
  show ∃ e ∈ (stepColor s c fade p k st).1.stack, _
  rw [stepColor_stack]
  unfold addStack
  rw [if_neg hacc]
  have hf0 : ¬ fade = 0 := by omega
  simp only [hf0, if_false]
  refine ⟨_, (mem_insertE _ _ _).mpr (Or.inl rfl), rfl, rfl, rfl, rfl, rfl, ?_⟩
  show colorBelow s.now p k s.stack = _
  unfold colorBelow
  rw [dropWhile_eq_filter_sorted p k _ hs]

/-- Software fade: for every sequence of `set_fade` commands and task resumptions on a channel there is at most one
live stepping task, and it carries the parameters of the latest command. -/
theorem soft_fade_single_task (ops : List COp) :
    (crun {} ops).tasks.length ≤ 1 ∧
    ∀ t ∈ (crun {} ops).tasks, (crun {} ops).cmd = some ⟨t.sb, t.st, t.tb, some t.tt⟩ ∧ (crun {} ops).cur = some t.id := by
  have h := (crun_inv ops {} chan_init_inv).1.2
  rcases h with h | ⟨t, ht, hc, hcmd⟩
  · rw [h]; simp
  · rw [ht]
    refine ⟨by simp, ?_⟩
    intro x hx
    simp only [List.mem_singleton] at hx
    subst hx
    exact ⟨hcmd, hc⟩

/-- Software fade at rest: whenever no stepping task is live, the brightness last commanded to the driver is the
target brightness of the latest command (so an earlier fade can never overwrite a later command). -/
theorem soft_quiescent_output (ops : List COp) (m : Cmd) (h : (crun {} ops).tasks = [])
    (hm : (crun {} ops).cmd = some m) : (crun {} ops).lastB = (m.tb, 255) :=
  (crun_inv ops {} chan_init_inv).2 h m hm

/-- The suppression shortcuts never lose an update: after every history the target colour of the last fade sent to
the hardware channels (off before anything was sent) is the target colour of the current stack. -/
theorem hw_target_invariant (ops : List Op) :
    sentTc (run {} ops) = (targetOf (run {} ops).stack).tc :=
  (run_induction HwInv step_hwinv ops {} ⟨List.Pairwise.nil, rfl⟩).2

/-- Quiescence: once every fade is over (`destT ≤ now` for all entries) and no fade-out entry is left, the target
colour last sent to the hardware is the logical colour. -/
theorem quiescent_output (ops : List Op) (hq : Quiet (run {} ops).now (run {} ops).stack) :
    sentTc (run {} ops) = getColor (run {} ops).now (run {} ops).stack := by
  rw [hw_target_invariant, target_eq_color_of_quiet _ _ hq]

/-- Several keys may be fading out on one light at the same time: after every history each fade-out entry on the
stack has its *own* pending removal delay, due exactly at the end of its fade (a later removal of another key never
replaces it). -/
theorem fade_out_has_timer (ops : List Op) (e : Entry) (he : e ∈ (run {} ops).stack) (hc : e.destC = none) :
    (e.key, e.destT) ∈ (run {} ops).timers :=
  run_induction GhostTimers step_ghostTimers ops {} (by intro e he; simp at he) e he hc

/-- …hence no stale fade-out entry: once every removal delay whose deadline has passed has fired, every fade-out entry
still on the stack is one whose fade is still running. -/
theorem no_stale_fade_out (ops : List Op) (hfired : ∀ t ∈ (run {} ops).timers, (run {} ops).now < t.2)
    (e : Entry) (he : e ∈ (run {} ops).stack) (hc : e.destC = none) : (run {} ops).now < e.destT :=
  hfired _ (fade_out_has_timer ops e he hc)

/-- Batched back end (PlatformBatchLightSystem after the D18 repair): for *every* interleaving of `set_fade` commands
(`mark`), scheduler iterations, sender computations, callback starts (`flush`) and callback completions (`delivered`) —
commands may arrive at any point, also while a callback is awaited — no dirty light is lost: every light that ever got a
command is still dirty, or taken by the sender, or re-scheduled (its fade is running), or the brightness recorded for
it is the target of its *latest* fade; and the recorded brightness is exactly what the platform has or will have once the
queued lists are delivered. -/
theorem batch_no_lost_dirty (ops : List Batch.Op) (l : Nat) :
    let s := Batch.run {} ops
    (s.ver l = 0 ∨ l ∈ s.dirty ∨ l ∈ s.pending ∨ l ∈ s.sched.map (·.2) ∨ Batch.Settled s l) ∧
    Batch.view s l = (s.last l).map (·.1) :=
  ⟨(Batch.run_inv ops {} Batch.init_inv).1 l, (Batch.run_inv ops {} Batch.init_inv).2 l⟩

/-- …hence at rest (nothing dirty, taken, scheduled, queued or in flight) the platform has received, for every light
that ever got a command, the target brightness of its latest `set_fade` — transmitted after that `set_fade`, whatever
happened in between. -/
theorem batch_quiescent_output (ops : List Batch.Op) (l : Nat)
    (hrest : (Batch.run {} ops).dirty = [] ∧ (Batch.run {} ops).pending = [] ∧ (Batch.run {} ops).sched = [] ∧
      (Batch.run {} ops).acc = [] ∧ (Batch.run {} ops).inflight = none)
    (hv : (Batch.run {} ops).ver l ≠ 0) :
    ∃ b, (Batch.run {} ops).hw l = some b ∧ Batch.eqB b (((Batch.run {} ops).fade l).tb, 255) := by
  have h := batch_no_lost_dirty ops l
  simp only at h
  obtain ⟨h1, h2⟩ := h
  obtain ⟨hd, hp, hs, ha, hi⟩ := hrest
  rw [hd, hp, hs] at h1
  rcases h1 with h1 | h1 | h1 | h1 | ⟨b, t, hl, he⟩
  · exact absurd h1 hv
  · simp at h1
  · simp at h1
  · simp at h1
  · refine ⟨b, ?_, he⟩
    unfold Batch.view at h2
    rw [ha, hi, hl] at h2
    simpa [Batch.lastIn, Batch.pick3] using h2


/-! ### hardware-fading back ends, RGBW / brightness / correction inside the model, batch grouping -/

/-- The stepping task of `LightPlatformDirectFade._fade` with `max_fade_ms = M` (software fade: `M = 0`; hardware that
fades by itself: `M > 0`), for every sequence of `set_fade` commands and task resumptions: whatever a resumption hands
to the hardware belongs to the channel's *latest* command `m` (never to a replaced fade), asks for at most the hardware's
maximum fade, and lies on the logical fade: an intermediate step tells the hardware to reach, `M` from now, the brightness
the line `(m.st, m.sb) — (T, m.tb)` has at that instant; the final step carries the target brightness and exactly the
remaining time, and leaves no task behind.  (Fade durations in units of 1/8000 ms: one tick = 1000000.)  With `M > 0` the
code as it is starts this task only for absurdly long fades (see `hw_fade_set_direct`); the theorem is about the function
for all inputs. -/
theorem hw_fade_step_on_latest_line (M : Nat) (ops : List COp) (now iv : Nat) (r : Chan × Nat × Nat × Bool)
    (hr : (crun { maxFade := M } ops).stepTask now iv = some r) :
    ∃ m T, (crun { maxFade := M } ops).cmd = some m ∧ m.tt = some T ∧ r.1.lastF ≤ 1000000 * M ∧
      r.1.lastB = (r.2.1, r.2.2.1) ∧
      (r.2.2.2 = false → now + M < T ∧ r.1.lastF = 1000000 * M ∧ r.2.2.1 = 255 * (T - m.st) ∧
        r.2.1 = lineNum m.sb m.st m.tb T (now + M) ∧ r.2.1 ≤ r.2.2.1) ∧
      (r.2.2.2 = true → T ≤ now + M ∧ r.1.lastF = 1000000 * (T - now) ∧ (r.2.1, r.2.2.1) = (m.tb, 255) ∧
        r.1.tasks = []) := by
  have hok : ChanOK (crun { maxFade := M } ops) := (crun_inv ops _ ⟨⟨by simp, Or.inl rfl⟩, by intro _ m h; simp at h⟩).1
  obtain ⟨m, T, h1, h2, h3, h4, h5, h6⟩ := stepTask_line _ now iv r hok hr
  rw [crun_maxFade] at h3 h5 h6
  refine ⟨m, T, h1, h2, h3, h4, ?_, h6⟩
  intro hf
  obtain ⟨a, b, c, d⟩ := h5 hf
  refine ⟨a, b, c, d, ?_⟩
  rw [d, c]
  exact clampI_le _ _

/-- `LightPlatformDirectFade.set_fade` as the code is: the stepping task is started exactly when
`(target_time - now) / 1000.0` (seconds / 1000) exceeds `max_fade_ms`, i.e. when `T - now > 1000000 * maxFade` ticks — for
a software fade whenever the fade has time left, for a hardware-fading light practically never; in every other case the
target brightness is handed over at once (so at rest the last commanded brightness is the target — the clause of C09),
with the fade duration the code computes, `T - now` units of 1/8000 ms instead of `1000000 * (T - now)`: the hardware is
told to jump (D30, observed; outside the property). -/
theorem hw_fade_set_direct (c : Chan) (now : Nat) (m : Cmd) :
    ((c.setFade now m).2 = false →
      (c.setFade now m).1.lastB = (m.tb, 255) ∧
      (∀ T, m.tt = some T → T ≤ now + 1000000 * c.maxFade ∧ (c.setFade now m).1.lastF = T - now) ∧
      (m.tt = none → (c.setFade now m).1.lastF = 0)) ∧
    ((c.setFade now m).2 = true → ∃ T, m.tt = some T ∧ now + 1000000 * c.maxFade < T) := by
  unfold Chan.setFade
  cases hm : m.tt with
  | none => simp
  | some T =>
    simp only
    split
    · rename_i h; simp [h]
    · rename_i h; simp; omega

/-- RGBW channel mapping (`rgbw_white_behavior`): for every colour with components `≤ 255` all four channels stay within
`0..255`; with `duck_rgb` the common part moves to the white channel — white plus each colour channel reproduces the
colour, white is the minimum and one colour channel is 0; with `white_only` likewise white plus channel reproduces the
colour (a pure grey is white only, anything else uses no white); with `min_rgb` the colour channels are the colour itself
and white duplicates the minimum. -/
theorem rgbw_sum_preserved (style : Nat) (c : RGB) (h : c.1 ≤ 255 ∧ c.2.1 ≤ 255 ∧ c.2.2 ≤ 255) :
    ((rgbw style c).1 ≤ 255 ∧ (rgbw style c).2.1 ≤ 255 ∧ (rgbw style c).2.2.1 ≤ 255 ∧ (rgbw style c).2.2.2 ≤ 255) ∧
    (style = 1 → (rgbw style c).1 + (rgbw style c).2.2.2 = c.1 ∧ (rgbw style c).2.1 + (rgbw style c).2.2.2 = c.2.1 ∧
      (rgbw style c).2.2.1 + (rgbw style c).2.2.2 = c.2.2 ∧ (rgbw style c).2.2.2 = minC c ∧
      min (rgbw style c).1 (min (rgbw style c).2.1 (rgbw style c).2.2.1) = 0) ∧
    (style = 2 → (rgbw style c).1 + (rgbw style c).2.2.2 = c.1 ∧ (rgbw style c).2.1 + (rgbw style c).2.2.2 = c.2.1 ∧
      (rgbw style c).2.2.1 + (rgbw style c).2.2.2 = c.2.2) ∧
    (style ≠ 1 → style ≠ 2 → ((rgbw style c).1, (rgbw style c).2.1, (rgbw style c).2.2.1) = c ∧
      (rgbw style c).2.2.2 = minC c) := by
  obtain ⟨r, g, b⟩ := c
  simp only at h
  refine ⟨?_, ?_, ?_, ?_⟩
  · unfold rgbw minC
    simp only
    split
    · simp only; omega
    · split
      · split <;> simp only <;> omega
      · simp only; omega
  · intro hs; subst hs
    simp [rgbw, minC]
    omega
  · intro hs; subst hs
    simp only [rgbw, minC]
    split
    · rename_i h1; simp at h1
    · simp only [if_true]
      split
      · rename_i h2; simp only; omega
      · simp
  · intro h1 h2
    simp [rgbw, minC, h1, h2]

/-- Brightness factor and colour correction as applied before the channel split: the brightness factor (`q/4 ≤ 1`) is
monotone in every component, never brightens, and maps black to black; hence for a light without correction profile the
hardware target of black is black and a brighter logical component never gives a darker hardware component.  For a
profile table the same holds exactly when the table is monotone and maps 0 to 0 — which is checked on the configured
table by the harness (it is *not* true of every table `generate_from_parameters` produces: see the report). -/
theorem brightness_monotone_black (q : Nat) (hq : q ≤ 4) (x y : RGB) :
    outC [] q off = off ∧
    (x.1 ≤ y.1 → (outC [] q x).1 ≤ (outC [] q y).1) ∧ (x.2.1 ≤ y.2.1 → (outC [] q x).2.1 ≤ (outC [] q y).2.1) ∧
    (x.2.2 ≤ y.2.2 → (outC [] q x).2.2 ≤ (outC [] q y).2.2) ∧
    ((outC [] q x).1 ≤ x.1 ∧ (outC [] q x).2.1 ≤ x.2.1 ∧ (outC [] q x).2.2 ≤ x.2.2) := by
  have hid : ∀ c : RGB, outC [] q c = gammaC q c := by intro c; simp [outC, corrC]
  rw [hid, hid, hid]
  refine ⟨?_, (gammaC_mono q x y).1, (gammaC_mono q x y).2.1, (gammaC_mono q x y).2.2, gammaC_le q hq x⟩
  unfold gammaC off
  split <;> simp

/-- `Light.on(brightness)` never exceeds the configured `default_on_color`, full brightness gives exactly that colour and
brightness 0 gives black. -/
theorem on_color_within_default (c : RGB) (b : Nat) (hb : b ≤ 255) (hc : c.1 ≤ 255 ∧ c.2.1 ≤ 255 ∧ c.2.2 ≤ 255) :
    ((mulC c b).1 ≤ c.1 ∧ (mulC c b).2.1 ≤ c.2.1 ∧ (mulC c b).2.2 ≤ c.2.2) ∧ mulC c 255 = c ∧ mulC c 0 = off := by
  obtain ⟨r, g, bl⟩ := c
  simp only at hc
  have key : ∀ x : Nat, x * b / 255 ≤ x := fun x =>
    Nat.le_trans (Nat.div_le_div_right (Nat.mul_le_mul_left x hb)) (by omega)
  refine ⟨⟨?_, ?_, ?_⟩, ?_, ?_⟩
  · exact Nat.le_trans (Nat.min_le_left _ _) (key r)
  · exact Nat.le_trans (Nat.min_le_left _ _) (key g)
  · exact Nat.le_trans (Nat.min_le_left _ _) (key bl)
  · simp only [mulC, Nat.mul_div_cancel _ (by decide : 0 < 255)]
    simp [Nat.min_eq_left hc.1, Nat.min_eq_left hc.2.1, Nat.min_eq_left hc.2.2]
  · simp [mulC, off]

/-- Batched back end with hardware fades — the computation of `get_fade_and_brightness` with `max_fade_ms = m` (the path
taken whenever the light's target is not cached; the cache, which answers a repeated call with fade 0 — D31, observed,
outside the property — is `Batch.fdOf` and does not change the brightness): for
every fade, instant and hardware maximum the (brightness, fade) pair never asks for more than the maximum;
when the fade ends within the maximum it is the target brightness with exactly the remaining time (and the light is done);
otherwise it is the maximum fade together with the brightness the logical fade has at `now + m`, and the light is
re-scheduled. -/
theorem batch_hw_pair_on_line (f : Batch.Fade) (now m : Nat) :
    Batch.fadeAt f now m ≤ m ∧
    (∀ tt, f.tt = some tt → now + m < tt →
      Batch.brightnessAt f now m =
        (((((f.sb : Int) * ((tt : Int) - f.st) + ((f.tb : Int) - f.sb) * ((now : Int) + m - f.st))).toNat, 255 * (tt - f.st)), false) ∧
      Batch.fadeAt f now m = m) ∧
    (∀ tt, f.tt = some tt → tt ≤ now + m → Batch.brightnessAt f now m = ((f.tb, 255), true) ∧ Batch.fadeAt f now m = tt - now) ∧
    (f.tt = none → Batch.brightnessAt f now m = ((f.tb, 255), true) ∧ Batch.fadeAt f now m = 0) := by
  refine ⟨Batch.fadeAt_le f now m, ?_, ?_, ?_⟩
  · intro tt h1 h2; simp [Batch.brightnessAt, Batch.fadeAt, h1, h2]
  · intro tt h1 h2
    have : ¬ now + m < tt := by omega
    simp [Batch.brightnessAt, Batch.fadeAt, h1, this]
  · intro h1; simp [Batch.brightnessAt, Batch.fadeAt, h1]

/-- Grouping of one round into callback lists (`_send_updates` / `_send_update_batch`): whatever the batch size, the
fade tolerance and the fades, concatenating the lists gives back exactly the queued lights in order — every one once,
none dropped, none duplicated, each with its own entry — and every list is non-empty, no longer than the batch size and
made of successive channel numbers. -/
theorem batch_grouping_exact (mb tol : Nat) (xs : List (Nat × Nat)) :
    (Batch.group mb tol xs [] 0).flatten = xs ∧
    ∀ g ∈ Batch.group mb tol xs [] 0, g ≠ [] ∧ g.length ≤ max mb 1 ∧ Batch.SeqRev g.reverse := by
  refine ⟨by simpa using Batch.group_flatten mb tol xs [] 0, ?_⟩
  exact Batch.group_bounds mb tol xs [] 0 trivial (by simp)

/-- Every dirty channel is sent exactly once per round, whatever the grouping: for *every* interleaving of commands,
scheduler iterations, computations, callback starts (at any point: `flush`, `flushKeep`) and completions, the lights
handed to the callback in the current round plus the open list are, in order, exactly the lights of the taken dirty set
that have been processed and not skipped as already transmitted; processed and still pending lights together are the
taken set, which has no duplicates.  So when the round is over (`pending = []`, `acc = []`) the callbacks of the round
have carried every non-skipped dirty light exactly once. -/
theorem batch_round_exactly_once (ops : List Batch.Op) :
    let s := Batch.run {} ops
    ((s.roundSent.flatten ++ s.acc).map (·.1) = (s.roundDone.filter (fun x => !x.2)).map (·.1)) ∧
    s.roundDone.map (·.1) ++ s.pending = s.taken ∧ s.taken.Pairwise (· < ·) ∧
    (s.pending = [] → s.acc = [] →
      (s.roundSent.flatten.map (·.1)).Pairwise (· < ·) ∧
      ∀ l, l ∈ s.roundSent.flatten.map (·.1) ↔ (l, false) ∈ s.roundDone) := by
  have h := Batch.run_R ops {} Batch.init_R
  obtain ⟨h1, h2, h3, _, h5⟩ := h
  refine ⟨by rw [h1, h3], h2, h5, ?_⟩
  intro hp ha
  rw [ha, List.append_nil] at h1
  rw [hp, List.append_nil] at h2
  rw [h1, h3]
  constructor
  · have : ((Batch.run {} ops).roundDone.map (·.1)).Pairwise (· < ·) := by rw [h2]; exact h5
    have hsub : (List.map (fun x => x.1) (List.filter (fun x => !x.2) (Batch.run {} ops).roundDone)).Sublist
        ((Batch.run {} ops).roundDone.map (·.1)) := List.Sublist.map _ List.filter_sublist
    exact List.Pairwise.sublist hsub this
  · intro l
    simp only [List.mem_map, List.mem_filter]
    constructor
    · rintro ⟨⟨a, b⟩, ⟨hm, hb⟩, rfl⟩
      have : b = false := by simpa using hb
      subst this; exact hm
    · intro hm; exact ⟨(l, false), ⟨hm, by simp⟩, rfl⟩

/-! ### the device as a whole: suppression bookkeeping (uncorrected) against what the channels were told (corrected) -/

/-- The dedupe shortcuts of `_schedule_update` compare *uncorrected* stack colours with the remembered last target, while
the channels receive colours after brightness factor, correction profile and channel mapping.  For every device
configuration (1/3/4 channels, any RGBW style, brightness factor, correction table — including tables under which one
colour is the corrected image of another — hardware maximum fade) and every history of colour/on/off/remove/clear commands,
fade-out delay firings, clock advances and fade-task resumptions: each hardware channel either has never been commanded
(nothing was ever sent) or its *latest* `set_fade` command targets exactly the channel value of the **corrected** target
colour of the current stack.  So no coincidence between a new colour and the corrected (or uncorrected) value of an
earlier one can make the shortcuts drop an update the hardware needs. -/
theorem channel_target_is_corrected_stack_target (n iv mf style q : Nat) (onC : RGB) (tab : List Nat) (ops : List DOp)
    (i : Nat) (c : Chan) (hc : (drun (dinit n iv mf style q onC tab) ops).chans[i]? = some c) :
    ((drun (dinit n iv mf style q onC tab) ops).l.last = none ∧ c.cmd = none) ∨
    ∃ m, c.cmd = some m ∧
      m.tb = chanVal n i style (outC tab q (targetOf (drun (dinit n iv mf style q onC tab) ops).l.stack).tc) := by
  obtain ⟨⟨_, hsent⟩, hch⟩ := drun_inv ops _ (dinit_inv n iv mf style q onC tab)
  obtain ⟨c1, c2, c3, c4, _⟩ := drun_cfg ops (dinit n iv mf style q onC tab)
  obtain ⟨_, _, e⟩ := hch i c hc
  rw [c1, c2, c3, c4] at e
  cases hl : (drun (dinit n iv mf style q onC tab) ops).l.last with
  | none => left; rw [hl] at e; exact ⟨rfl, e⟩
  | some t =>
    right
    rw [hl] at e
    refine ⟨_, e, ?_⟩
    rw [cmdOf_tb, ← hsent]
    simp only [sentTc, hl]
    rfl

/-- The at-rest clause of C09 on the direct, software-faded and hardware-fading back ends, *with* brightness and colour
correction: after every history, once all fades and fade-outs are over, something was sent at all, and a channel has no
live stepping task, the brightness last commanded to that channel is the channel value of the corrected logical
colour. -/
theorem corrected_output_at_rest (n iv mf style q : Nat) (onC : RGB) (tab : List Nat) (ops : List DOp)
    (i : Nat) (c : Chan) (hc : (drun (dinit n iv mf style q onC tab) ops).chans[i]? = some c)
    (hsent : (drun (dinit n iv mf style q onC tab) ops).l.last ≠ none)
    (hq : Quiet (drun (dinit n iv mf style q onC tab) ops).l.now (drun (dinit n iv mf style q onC tab) ops).l.stack)
    (ht : c.tasks = []) :
    c.lastB = (chanVal n i style (outC tab q
      (getColor (drun (dinit n iv mf style q onC tab) ops).l.now (drun (dinit n iv mf style q onC tab) ops).l.stack)), 255) := by
  obtain ⟨_, hch⟩ := drun_inv ops _ (dinit_inv n iv mf style q onC tab)
  obtain ⟨_, hQ, _⟩ := hch i c hc
  rcases channel_target_is_corrected_stack_target n iv mf style q onC tab ops i c hc with ⟨h, _⟩ | ⟨m, hm, hb⟩
  · exact absurd h hsent
  · rw [hQ ht m hm, hb, target_eq_color_of_quiet _ _ hq]

/-- every channel of the device exists throughout: the latest-command statement above speaks about all `n` channels -/
theorem device_keeps_its_channels (n iv mf style q : Nat) (onC : RGB) (tab : List Nat) (ops : List DOp) :
    (drun (dinit n iv mf style q onC tab) ops).chans.length = n :=
  drun_len ops _ n (by simp [dinit])

/-! ### the hypotheses are satisfiable on non-trivial states (kernel evaluation) -/

def exOps : List Op :=
  [.adv 8, .color (255, 0, 0) 0 1 4 8, .color (0, 0, 255) 8 3 1 8, .adv 10, .remove 4 4, .adv 11,
   .color (9, 9, 9) 0 0 2 11]

example : (run {} exOps).stack.length = 3 := by decide
example : getColor 10 (run {} exOps).stack = (192, 0, 63) := by decide
example : sentTc (run {} exOps) = (0, 0, 255) := by decide
example : Quiet 20 (run {} (exOps ++ [.adv 14, .fire 4, .adv 20])).stack := by decide
example : (crun {} [.set 8 ⟨0, 8, 255, some 24⟩, .tick 8 1, .tick 9 1, .set 12 ⟨0, 0, 0, none⟩, .tick 13 1]).tasks = [] := by
  decide
example : (crun {} [.set 8 ⟨0, 8, 255, some 24⟩, .tick 8 1, .tick 9 1]).tasks.length = 1 := by decide

/-- a command arriving while a callback is awaited (the D18 situation) is transmitted in the next round -/
example : (Batch.run {} [.adv 16, .mark 0 ⟨0, 0, 255, none⟩, .compute 0, .flush, .mark 1 ⟨0, 0, 128, none⟩, .delivered,
    .compute 1, .flush, .delivered]).hw 1 = some (128, 255) := by decide

/-- three keys fading out at once, removed within each other's windows; every delay fires; the stack is empty again -/
def exOps3 : List Op :=
  [.adv 8, .color (255, 0, 0) 0 1 1 8, .color (0, 255, 0) 0 1 2 8, .color (0, 0, 255) 0 2 3 8, .remove 3 8, .adv 9,
   .remove 1 8, .remove 2 4]

example : ((run {} exOps3).stack.filter (fun e => e.destC.isNone)).length = 3 ∧ (run {} exOps3).timers.length = 3 := by decide
example : (run {} (exOps3 ++ [.adv 13, .fire 2, .adv 16, .fire 3, .adv 17, .fire 1])).stack = [] := by decide

/-- the code as it is: a 2 s fade on hardware that fades at most 0.5 s on its own is handed over at once as the target (D30) -/
example : (crun { maxFade := 4 } [.set 8 ⟨0, 8, 255, some 24⟩]).lastB = (255, 255) ∧
    (crun { maxFade := 4 } [.set 8 ⟨0, 8, 255, some 24⟩]).lastF = 16 ∧
    (crun { maxFade := 4 } [.set 8 ⟨0, 8, 255, some 24⟩]).tasks = [] := by decide
/-- the stepping task with a hardware maximum (reached only by a fade longer than 1000000 ticks per tick of maximum) -/
example : (crun { maxFade := 1 } [.set 0 ⟨0, 0, 255, some 4000000⟩, .tick 0 1]).lastF = 1000000 ∧
    (crun { maxFade := 1 } [.set 0 ⟨0, 0, 255, some 4000000⟩, .tick 0 1]).lastB = (255, 255 * 4000000) ∧
    (crun { maxFade := 1 } [.set 0 ⟨0, 0, 255, some 4000000⟩, .tick 0 1]).tasks.length = 1 := by decide
/-- the batch cache as it is (D31): a light computed twice without a new command answers fade 0 the second time -/
example : Batch.fdOf (Batch.run { maxFade := 200 } [.adv 16, .mark 0 ⟨0, 16, 255, some 48⟩, .compute 0, .flush, .delivered]) 0 = 0 ∧
    Batch.fdOf (Batch.run { maxFade := 200 } [.adv 16, .mark 0 ⟨0, 16, 255, some 48⟩]) 0 = 32 := by decide
example : rgbw 1 (200, 120, 50) = (150, 70, 0, 50) ∧ rgbw 2 (77, 77, 77) = (0, 0, 0, 77) ∧ rgbw 0 (200, 120, 50) = (200, 120, 50, 50) := by
  decide
/-- channels 10-13, 15 and 20-21 dirty, batch size 3, equal fades: lists [10,11,12] [13] [15] [20,21] -/
example : (Batch.group 3 2 [(10, 0), (11, 0), (12, 0), (13, 0), (15, 0), (20, 0), (21, 0)] [] 0).map (fun g => g.map (·.1)) =
    [[10, 11, 12], [13], [15], [20, 21]] := by decide
/-- a round with a skipped light and a list that overflowed: both lights computed and not skipped were sent once -/
example : ((Batch.run { maxBatch := 1 } [.adv 16, .mark 0 ⟨0, 0, 255, none⟩, .mark 1 ⟨0, 0, 128, none⟩, .compute 0, .compute 1,
    .flushKeep, .delivered, .flush, .delivered]).roundSent.flatten.map (·.1)) = [0, 1] := by decide

/-- the coincidence of the seeded change: brightness 0.5, white, then (127,127,127) = corrected(white) under the same key:
the second command is NOT suppressed, the channels end at corrected(127,127,127) = 63 -/
def exDev : List DOp :=
  [.light (.adv 8), .light (.color (255, 255, 255) 0 1 1 8), .light (.adv 9), .light (.color (127, 127, 127) 0 1 1 9)]

example : ((drun (dinit 3 1 0 0 2 (255, 255, 255) []) exDev).chans.map (·.lastB)) = [(63, 255), (63, 255), (63, 255)] := by
  decide
example : (drun (dinit 3 1 0 0 2 (255, 255, 255) []) exDev).l.last ≠ none ∧
    Quiet (drun (dinit 3 1 0 0 2 (255, 255, 255) []) exDev).l.now (drun (dinit 3 1 0 0 2 (255, 255, 255) []) exDev).l.stack ∧
    ((drun (dinit 3 1 0 0 2 (255, 255, 255) []) exDev).chans.all (fun c => c.tasks.isEmpty)) = true := by decide
/-- a software fade to a colour, the same colour re-issued above it with a fade (target = start), the task steps, the upper
key removed (colour beneath equals the removed one): one live task at most, and at rest the corrected colour -/
example : ((drun (dinit 1 1 0 0 3 (255, 255, 255) []) [.light (.adv 8), .light (.color (100, 100, 100) 2 1 1 8), .task 0,
    .light (.adv 9), .task 0, .light (.color (100, 100, 100) 4 2 2 9), .light (.adv 10), .task 0, .light (.adv 14),
    .task 0, .light (.remove 2 0)]).chans.map (fun c => (c.lastB, c.tasks.length))) = [((75, 255), 0)] := by decide

end MpfVerif.C09
