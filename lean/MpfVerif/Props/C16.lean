import MpfVerif.Lemmas.Template
import MpfVerif.Gen.OpTables
/-!
# C16 — templates evaluate like Python and never act on stale values

Property theorems only (model: `Model/Template.lean`; `Gen/OpTables.lean` is regenerated from
`mpf/core/placeholder_manager.py` on every run).
-/
namespace MpfVerif.C16
open MpfVerif.Template

/-- The operator tables the model dispatches through are exactly the `OPERATORS`, `BOOL_OPERATORS` and `COMPARISONS`
dict literals of the source (AST node class -> Python operator), as regenerated on this run. -/
theorem tables_correct :
    MpfVerif.Gen.OpTables.operators = opTable ∧ MpfVerif.Gen.OpTables.boolOperators = boolTable ∧
    MpfVerif.Gen.OpTables.comparisons = cmpTable := by decide

/-- **Reads are subscribed**: for every expression and environment, every variable / setting / player variable /
device attribute read while evaluating with subscription appears in the returned subscription list — on value paths
and on error paths (a failing evaluation keeps what was collected before it). -/
theorem reads_subscribed (env : Env) (e : Expr) : ∀ l ∈ (eval true env e).reads, Sub.loc l ∈ (eval true env e).subs := by
  show Covered (eval true env e)
  induction e with
  | const v => intro l hl; simp [eval] at hl
  | name n =>
    simp only [eval]
    split
    · intro l hl; simp at hl
    · split <;> (intro l hl; simp at hl)
  | unary op e ih => simp only [eval]; split <;> first | exact covered_out _ _ ih | exact ih
  | bin op a b iha ihb =>
    simp only [eval]
    split
    · split <;> exact covered_append _ _ _ iha ihb
    · exact iha
  | cmp op a b iha ihb =>
    simp only [eval]
    split
    · split <;> exact covered_append _ _ _ iha ihb
    · exact iha
  | boolop op a b iha ihb =>
    simp only [eval]
    split
    · split <;> exact covered_append _ _ _ iha ihb
    · exact iha
  | ite c a b ihc iha ihb =>
    simp only [eval]
    split
    · split
      · exact covered_append _ _ _ ihc iha
      · exact covered_append _ _ _ ihc ihb
    · exact ihc
  | tnil => intro l hl; simp [eval] at hl
  | tcons h t ihh iht =>
    simp only [eval]
    split
    · split <;> exact covered_append _ _ _ ihh iht
    · exact ihh
  | attr e a ih =>
    simp only [eval]
    split
    · split
      · exact covered_out _ _ ih
      · exact access_covered env _ a _ _ ih
    · exact ih
  | item e k ihe ihk =>
    simp only [eval]
    split
    · split
      · split
        · split
          · exact covered_append _ _ _ ihe ihk
          · exact access_covered env _ _ _ _ (covered_append _ _ .crash ihe ihk)
        · split <;> exact covered_append _ _ _ ihe ihk
        · exact covered_append _ _ _ ihe ihk
      · exact covered_append _ _ _ ihe ihk
    · exact ihe

/-- non-vacuity: a concrete evaluation reads two locations, both subscribed, also when the taken branch fails -/
example : (eval true { vars := [(("machine", ["b"]), .int 1)] }
    (.ite (.attr (.name "machine") "b") (.bin "Add" (.attr (.name "machine") "a") (.const (.str "x"))) (.const (.int 5)))).reads
    = [("machine", ["b"]), ("machine", ["a"])] := by decide

end MpfVerif.C16
