import MpfVerif.Lemmas.Template
import MpfVerif.Gen.OpTables
/-!
# C16 — templates evaluate like Python and never act on stale values

Property theorems only (model: `Model/Template.lean`; `Gen/OpTables.lean` is regenerated from
`mpf/core/placeholder_manager.py` on every run).
-/
namespace MpfVerif.C16
open MpfVerif.Template

/-- The operator tables the model dispatches through are exactly the `OPERATORS`, `BOOL_OPERATORS` and `COMPARISONS`
dict literals of the source (AST node class -> Python operator), as regenerated on this run. -/
theorem tables_correct :
    MpfVerif.Gen.OpTables.operators = opTable ∧ MpfVerif.Gen.OpTables.boolOperators = boolTable ∧
    MpfVerif.Gen.OpTables.comparisons = cmpTable := by decide

/-- **Reads are subscribed**: for every expression and environment, every variable / setting / player variable /
device attribute read while evaluating with subscription appears in the returned subscription list — on value paths
and on error paths (a failing evaluation keeps what was collected before it). -/
theorem reads_subscribed (env : Env) (e : Expr) : ∀ l ∈ (eval true env e).reads, Sub.loc l ∈ (eval true env e).subs := by
  show Covered (eval true env e)
  induction e with
  | const v => intro l hl; simp [eval] at hl
  | name n =>
    simp only [eval]
    split
    · intro l hl; simp at hl
    · split
      · intro l hl; simp at hl
      · split <;> (intro l hl; simp at hl)
  | unary op e ih => simp only [eval]; split <;> first | exact covered_out _ _ ih | exact ih
  | bin op a b iha ihb =>
    simp only [eval]
    split
    · split <;> exact covered_append _ _ _ iha ihb
    · exact iha
  | cmp op a b iha ihb =>
    simp only [eval]
    split
    · split <;> exact covered_append _ _ _ iha ihb
    · exact iha
  | slice a b iha ihb =>
    simp only [eval]
    split
    · split <;> exact covered_append _ _ _ iha ihb
    · exact iha
  | boolop op a b iha ihb =>
    simp only [eval]
    split
    · split <;> exact covered_append _ _ _ iha ihb
    · exact iha
  | ite c a b ihc iha ihb =>
    simp only [eval]
    split
    · split
      · exact covered_append _ _ _ ihc iha
      · exact covered_append _ _ _ ihc ihb
    · exact ihc
  | tnil => intro l hl; simp [eval] at hl
  | tcons h t ihh iht =>
    simp only [eval]
    split
    · split <;> exact covered_append _ _ _ ihh iht
    · exact ihh
  | attr e a ih =>
    simp only [eval]
    split
    · split
      · exact covered_out _ _ ih
      · split
        · exact covered_out _ _ ih
        · exact access_covered env _ a _ _ ih
    · exact ih
  | item e k ihe ihk =>
    simp only [eval]
    split
    · split
      · exact itemRes_covered env _ _ _ _ (covered_append _ _ .crash ihe ihk)
      · exact covered_append _ _ _ ihe ihk
    · exact ihe

/-- **Fresh**: if another environment `env'` has the same parameters and the same value at every location whose
subscription is in the list returned by the evaluation on `env`, then evaluating on `env'` gives the identical result
— the same value or the same error class, the same subscription list, the same read log.  A template is notified
whenever a subscribed location changes; so as long as it is *not* notified, re-evaluating could not give anything else:
it cannot be stale.  (Holds for every expression incl. attribute, subscript and slice access on every root - machine,
machine.time, settings, current_player, players[n], device - where "the same value" includes "the same absence": not in a
game / player not in the game; and on error paths.) -/
theorem fresh (env env' : Env) (e : Expr) (h : Agree env env' (eval true env e).subs) :
    eval true env' e = eval true env e := fresh_eval env env' e h

/-- **Evaluates like Python**: in both modes (`sub` = evaluate / evaluate_and_subscribe) and for every expression and
environment, the evaluator's outcome is the outcome of Python's semantics with all `and`/`or` operands evaluated
(`py false`), seen through MPF's error mapping `ofPy`/`mapErr`: Python's value unchanged; the template default exactly
when Python raises `TypeError`, when a name is missing (plain `evaluate`) or when an attribute is read from a falsy
parent (subscribing); a rejection (`crash`) for every other exception; `unmodelled` passed through.  The operator
semantics (`applyBin`, `pyIndex`, `pySlice`, `fmtScan` …) are shared by both sides and validated against CPython by the
correspondence run.  New error classes: a `ValueError` nobody catches (`'%z' % 1`, slice step 0, unknown mode) behaves like a
missing name; a location whose placeholder raises `ValueError` (`absent`: not in a game, player not in game) gives the default
in both modes; the roots `mode` and `game` have no `subscribe()` and are rejected when subscribing (second argument of `py`). -/
theorem eval_is_python (sub : Bool) (env : Env) (e : Expr) : (eval sub env e).out = ofPy sub (py false sub env e) :=
  eval_out sub env e

/-- the documented deviation, exactly: whenever evaluating all `and`/`or` operands succeeds, Python's short-circuit
evaluation (`py true`) yields the same value — the two can only differ by an error in an operand Python would skip -/
theorem all_operands_agree_with_short_circuit (rej : Bool) (env : Env) (e : Expr) (v : Val) (h : py false rej env e = .ok v) :
    py true rej env e = .ok v := strict_to_lazy rej env e v h

/-- corollary: a value computed by the evaluator is Python's (short-circuit) value of the expression -/
theorem value_is_pythons (sub : Bool) (env : Env) (e : Expr) (v : Val) (h : (eval sub env e).out = .ok v) :
    py true sub env e = .ok v := by
  apply strict_to_lazy
  rw [eval_is_python] at h
  cases hp : py false sub env e with
  | ok w => rw [hp] at h; simp only [ofPy] at h; rw [Out.ok.inj h]
  | error x => rw [hp] at h; cases x <;> cases sub <;> simp [ofPy, mapErr] at h

/-- **Text templates, reads are subscribed**: every location read by any `{field}` of a text template is in the subscription
list of the template (the futures of all fields are combined with `Util.any`). -/
theorem text_reads_subscribed (env : Env) (ps : List Piece) :
    ∀ l ∈ (textEval (eval true env) ps).reads, Sub.loc l ∈ (textEval (eval true env) ps).subs :=
  textEval_covered _ (fun e => reads_subscribed env e) ps

/-- **Text templates are fresh**: same statement as `fresh` for a whole text template - while no subscribed location
changes, formatting again gives the identical text. -/
theorem text_fresh (env env' : Env) (ps : List Piece) (h : Agree env env' (textEval (eval true env) ps).subs) :
    textEval (eval true env') ps = textEval (eval true env) ps := fresh_text env env' ps h

/-- **Text templates format Python's values**: the text is the concatenation of the literal pieces and of every field
formatted (`format(value, spec)`, `None` for a field whose evaluation gave the default, `0` for `None` under the `d` spec)
from the value Python's semantics gives the field's expression. -/
theorem text_is_python (sub : Bool) (env : Env) (ps : List Piece) :
    (textEval (eval sub env) ps).out = textPy sub env ps := textEval_out sub env ps

/-- non-vacuity of `fresh`: `machine.b` differs between the environments but is not subscribed (the test is false) -/
example : Agree { vars := [(("machine", ["c"]), .int 0), (("machine", ["b"]), .int 1)] }
      { vars := [(("machine", ["c"]), .int 0), (("machine", ["b"]), .int 2)] }
      (eval true { vars := [(("machine", ["c"]), .int 0), (("machine", ["b"]), .int 1)] }
        (.ite (.attr (.name "machine") "c") (.attr (.name "machine") "b") (.const (.int 5)))).subs := by
  refine ⟨rfl, rfl, ?_⟩
  intro l hl
  have : l = ("machine", ["c"]) := by
    simp [eval, access, roots, depth, Env.look, findVar, truthy] at hl
    exact hl
  subst this
  decide

/-- non-vacuity of the deviation: strict evaluation fails where Python short-circuits -/
example : py false false {} (.boolop "And" (.const (.bool false)) (.bin "Add" (.const (.int 1)) (.const (.str "x")))) = .error .typeError ∧
    py true false {} (.boolop "And" (.const (.bool false)) (.bin "Add" (.const (.int 1)) (.const (.str "x")))) = .ok (.bool false) := by
  constructor <;> rfl

/-- non-vacuity: a concrete evaluation reads two locations, both subscribed, also when the taken branch fails -/
example : (eval true { vars := [(("machine", ["b"]), .int 1)] }
    (.ite (.attr (.name "machine") "b") (.bin "Add" (.attr (.name "machine") "a") (.const (.str "x"))) (.const (.int 5)))).reads
    = [("machine", ["b"]), ("machine", ["a"])] := by decide

/-- non-vacuity (session 3 roots): outside a game `current_player.p` is absent - the evaluation yields the default, and the
location as well as the player placeholder itself are subscribed, so the game start re-evaluates it; in the game it is 7 -/
example : (eval true { absent := [("current_player", ["p"])] } (.attr (.name "current_player") "p")).out = .default ∧
    (eval true { absent := [("current_player", ["p"])] } (.attr (.name "current_player") "p")).subs
      = [Sub.root "current_player", Sub.loc ("current_player", ["p"])] ∧
    (eval true { vars := [(("current_player", ["p"]), .int 7)] } (.attr (.name "current_player") "p")).out = .ok (.int 7) := by
  decide

/-- non-vacuity: `players[1].score` reads the location `players.1.score`; `'%s-%d' % (machine.a, 2)` and a slice evaluate -/
example : (eval true { vars := [(("players", ["1", "score"]), .int 30)] }
      (.attr (.item (.name "players") (.const (.int 1))) "score")).reads = [("players", ["1", "score"])] ∧
    (eval false { vars := [(("machine", ["a"]), .str "x")] }
      (.bin "Mod" (.const (.str "%s-%d")) (.tcons (.attr (.name "machine") "a") (.tcons (.const (.int 2)) .tnil)))).out
      = .ok (.str "x-2") ∧
    (eval false {} (.slice (.const (.str "abcde")) (.tcons (.const (.int 1)) (.tcons (.const (.int (-1))) (.tcons (.const .none) .tnil))))).out
      = .ok (.str "bcd") := by
  decide

/-- non-vacuity of the text theorems: `a={machine.a:d}` with `machine.a = None` formats as `a=0` and subscribes `machine.a` -/
example : (textEval (eval true {}) [.lit "a=", .fld (.attr (.name "machine") "a") "d"]).out = .ok (.str "a=0") ∧
    (textEval (eval true {}) [.lit "a=", .fld (.attr (.name "machine") "a") "d"]).reads = [("machine", ["a"])] := by
  decide

end MpfVerif.C16
