import MpfVerif.Lemmas.Template
import MpfVerif.Lemmas.CondDispatch
import MpfVerif.Gen.OpTables
/-!
# C16 — templates evaluate like Python and never act on stale values

Property theorems only (models: `Model/Template.lean`, `Model/CondDispatch.lean`; `Gen/OpTables.lean` is regenerated from
`mpf/core/placeholder_manager.py` on every run).
-/
namespace MpfVerif.C16
open MpfVerif.Template

/-- The operator tables the model dispatches through are exactly the `OPERATORS`, `BOOL_OPERATORS` and `COMPARISONS`
dict literals of the source (AST node class -> Python operator), as regenerated on this run. -/
theorem tables_correct :
    MpfVerif.Gen.OpTables.operators = opTable ∧ MpfVerif.Gen.OpTables.boolOperators = boolTable ∧
    MpfVerif.Gen.OpTables.comparisons = cmpTable := by decide

/-- **Reads are subscribed**: for every expression and environment, every variable / setting / player variable /
device attribute read while evaluating with subscription appears in the returned subscription list — on value paths
and on error paths (a failing evaluation keeps what was collected before it). -/
theorem reads_subscribed (env : Env) (e : Expr) : ∀ l ∈ (eval true env e).reads, Sub.loc l ∈ (eval true env e).subs := by
  show Covered (eval true env e)
  induction e with
  | const v => intro l hl; simp [eval] at hl
  | name n =>
    simp only [eval]
    split
    · intro l hl; simp at hl
    · split
      · intro l hl; simp at hl
      · split <;> (intro l hl; simp at hl)
  | unary op e ih => simp only [eval]; split <;> first | exact covered_out _ _ ih | exact ih
  | bin op a b iha ihb =>
    simp only [eval]
    split
    · split <;> exact covered_append _ _ _ iha ihb
    · exact iha
  | cmp op a b iha ihb =>
    simp only [eval]
    split
    · split <;> exact covered_append _ _ _ iha ihb
    · exact iha
  | slice a b iha ihb =>
    simp only [eval]
    split
    · split <;> exact covered_append _ _ _ iha ihb
    · exact iha
  | boolop op a b iha ihb =>
    simp only [eval]
    split
    · split <;> exact covered_append _ _ _ iha ihb
    · exact iha
  | ite c a b ihc iha ihb =>
    simp only [eval]
    split
    · split
      · exact covered_append _ _ _ ihc iha
      · exact covered_append _ _ _ ihc ihb
    · exact ihc
  | tnil => intro l hl; simp [eval] at hl
  | tcons h t ihh iht =>
    simp only [eval]
    split
    · split <;> exact covered_append _ _ _ ihh iht
    · exact ihh
  | attr e a ih =>
    simp only [eval]
    split
    · split
      · exact covered_out _ _ ih
      · split
        · exact covered_out _ _ ih
        · exact access_covered env _ a _ _ ih
    · exact ih
  | item e k ihe ihk =>
    simp only [eval]
    split
    · split
      · exact itemRes_covered env _ _ _ _ (covered_append _ _ .crash ihe ihk)
      · exact covered_append _ _ _ ihe ihk
    · exact ihe

/-- **Fresh**: if another environment `env'` has the same parameters and the same value at every location whose
subscription is in the list returned by the evaluation on `env`, then evaluating on `env'` gives the identical result
— the same value or the same error class, the same subscription list, the same read log.  A template is notified
whenever a subscribed location changes; so as long as it is *not* notified, re-evaluating could not give anything else:
it cannot be stale.  (Holds for every expression incl. attribute, subscript and slice access on every root - machine,
machine.time, settings, current_player, players[n], device - where "the same value" includes "the same absence": not in a
game / player not in the game; and on error paths.) -/
theorem fresh (env env' : Env) (e : Expr) (h : Agree env env' (eval true env e).subs) :
    eval true env' e = eval true env e := fresh_eval env env' e h

/-- **Evaluates like Python**: in both modes (`sub` = evaluate / evaluate_and_subscribe) and for every expression and
environment, the evaluator's outcome is the outcome of Python's semantics with all `and`/`or` operands evaluated
(`py false`), seen through MPF's error mapping `ofPy`/`mapErr`: Python's value unchanged; the template default exactly
when Python raises `TypeError`, when a name is missing (plain `evaluate`) or when an attribute is read from a falsy
parent (subscribing); a rejection (`crash`) for every other exception; `unmodelled` passed through.  The operator
semantics (`applyBin`, `pyIndex`, `pySlice`, `fmtScan` …) are shared by both sides and validated against CPython by the
correspondence run.  New error classes: a `ValueError` nobody catches (`'%z' % 1`, slice step 0, unknown mode) behaves like a
missing name; a location whose placeholder raises `ValueError` (`absent`: not in a game, player not in game) gives the default
in both modes; the roots `mode` and `game` have no `subscribe()` and are rejected when subscribing (second argument of `py`). -/
theorem eval_is_python (sub : Bool) (env : Env) (e : Expr) : (eval sub env e).out = ofPy sub (py false sub env e) :=
  eval_out sub env e

/-- the documented deviation, exactly: whenever evaluating all `and`/`or` operands succeeds, Python's short-circuit
evaluation (`py true`) yields the same value — the two can only differ by an error in an operand Python would skip -/
theorem all_operands_agree_with_short_circuit (rej : Bool) (env : Env) (e : Expr) (v : Val) (h : py false rej env e = .ok v) :
    py true rej env e = .ok v := strict_to_lazy rej env e v h

/-- corollary: a value computed by the evaluator is Python's (short-circuit) value of the expression -/
theorem value_is_pythons (sub : Bool) (env : Env) (e : Expr) (v : Val) (h : (eval sub env e).out = .ok v) :
    py true sub env e = .ok v := by
  apply strict_to_lazy
  rw [eval_is_python] at h
  cases hp : py false sub env e with
  | ok w => rw [hp] at h; simp only [ofPy] at h; rw [Out.ok.inj h]
  | error x => rw [hp] at h; cases x <;> cases sub <;> simp [ofPy, mapErr] at h

/-- **Text templates, reads are subscribed**: every location read by any `{field}` of a text template is in the subscription
list of the template (the futures of all fields are combined with `Util.any`). -/
theorem text_reads_subscribed (env : Env) (ps : List Piece) :
    ∀ l ∈ (textEval (eval true env) ps).reads, Sub.loc l ∈ (textEval (eval true env) ps).subs :=
  textEval_covered _ (fun e => reads_subscribed env e) ps

/-- **Text templates are fresh**: same statement as `fresh` for a whole text template - while no subscribed location
changes, formatting again gives the identical text. -/
theorem text_fresh (env env' : Env) (ps : List Piece) (h : Agree env env' (textEval (eval true env) ps).subs) :
    textEval (eval true env') ps = textEval (eval true env) ps := fresh_text env env' ps h

/-- **Text templates format Python's values**: the text is the concatenation of the literal pieces and of every field
formatted (`format(value, spec)`, `None` for a field whose evaluation gave the default, `0` for `None` under the `d` spec)
from the value Python's semantics gives the field's expression. -/
theorem text_is_python (sub : Bool) (env : Env) (ps : List Piece) :
    (textEval (eval sub env) ps).out = textPy sub env ps := textEval_out sub env ps

/-- non-vacuity of `fresh`: `machine.b` differs between the environments but is not subscribed (the test is false) -/
example : Agree { vars := [(("machine", ["c"]), .int 0), (("machine", ["b"]), .int 1)] }
      { vars := [(("machine", ["c"]), .int 0), (("machine", ["b"]), .int 2)] }
      (eval true { vars := [(("machine", ["c"]), .int 0), (("machine", ["b"]), .int 1)] }
        (.ite (.attr (.name "machine") "c") (.attr (.name "machine") "b") (.const (.int 5)))).subs := by
  refine ⟨rfl, rfl, ?_⟩
  intro l hl
  have : l = ("machine", ["c"]) := by
    simp [eval, access, roots, depth, Env.look, findVar, truthy] at hl
    exact hl
  subst this
  decide

/-- non-vacuity of the deviation: strict evaluation fails where Python short-circuits -/
example : py false false {} (.boolop "And" (.const (.bool false)) (.bin "Add" (.const (.int 1)) (.const (.str "x")))) = .error .typeError ∧
    py true false {} (.boolop "And" (.const (.bool false)) (.bin "Add" (.const (.int 1)) (.const (.str "x")))) = .ok (.bool false) := by
  constructor <;> rfl

/-- non-vacuity: a concrete evaluation reads two locations, both subscribed, also when the taken branch fails -/
example : (eval true { vars := [(("machine", ["b"]), .int 1)] }
    (.ite (.attr (.name "machine") "b") (.bin "Add" (.attr (.name "machine") "a") (.const (.str "x"))) (.const (.int 5)))).reads
    = [("machine", ["b"]), ("machine", ["a"])] := by decide

/-- non-vacuity (session 3 roots): outside a game `current_player.p` is absent - the evaluation yields the default, and the
location as well as the player placeholder itself are subscribed, so the game start re-evaluates it; in the game it is 7 -/
example : (eval true { absent := [("current_player", ["p"])] } (.attr (.name "current_player") "p")).out = .default ∧
    (eval true { absent := [("current_player", ["p"])] } (.attr (.name "current_player") "p")).subs
      = [Sub.root "current_player", Sub.loc ("current_player", ["p"])] ∧
    (eval true { vars := [(("current_player", ["p"]), .int 7)] } (.attr (.name "current_player") "p")).out = .ok (.int 7) := by
  decide

/-- non-vacuity: `players[1].score` reads the location `players.1.score`; `'%s-%d' % (machine.a, 2)` and a slice evaluate -/
example : (eval true { vars := [(("players", ["1", "score"]), .int 30)] }
      (.attr (.item (.name "players") (.const (.int 1))) "score")).reads = [("players", ["1", "score"])] ∧
    (eval false { vars := [(("machine", ["a"]), .str "x")] }
      (.bin "Mod" (.const (.str "%s-%d")) (.tcons (.attr (.name "machine") "a") (.tcons (.const (.int 2)) .tnil)))).out
      = .ok (.str "x-2") ∧
    (eval false {} (.slice (.const (.str "abcde")) (.tcons (.const (.int 1)) (.tcons (.const (.int (-1))) (.tcons (.const .none) .tnil))))).out
      = .ok (.str "bcd") := by
  decide

/-- non-vacuity of the text theorems: `a={machine.a:d}` with `machine.a = None` formats as `a=0` and subscribes `machine.a` -/
example : (textEval (eval true {}) [.lit "a=", .fld (.attr (.name "machine") "a") "d"]).out = .ok (.str "a=0") ∧
    (textEval (eval true {}) [.lit "a=", .fld (.attr (.name "machine") "a") "d"]).reads = [("machine", ["a"])] := by
  decide


/-! ## conditional event handlers and conditional config-player entries (`Model/CondDispatch.lean`) -/
open MpfVerif.CondDispatch

/-- **Turns are serial**: dispatching a post over `pre ++ post` is dispatching over `pre` and then, from the world `pre`
left (values changed by the handlers that ran, kwargs updated by the dicts relay handlers returned, the log, whether the
post was stopped), over `post`.  There is no other channel from one handler's turn to the next: in particular no verdict
computed earlier in the post is carried along. -/
theorem dispatch_is_serial (k : Kind) (w : World) (pre post : List Handler) :
    dispatch k w (pre ++ post) = dispatch k (dispatch k w pre) post := dispatch_append' k w pre post

/-- **A conditional handler runs iff its condition is true on the values at ITS turn**: for every post kind, every world,
every handler list `pre ++ h :: post` of the event (ids distinct), `h` is called during the post iff the post is still
running when its turn comes and its condition — evaluated over the machine / player / settings / device values *as the
handlers before it left them* and the kwargs as relayed so far, overridden by its own kwargs — is true.  (The condition of
`none` is the unconditional handler.) -/
theorem handler_runs_iff_condition_true_at_its_turn (k : Kind) (w : World) (pre post : List Handler) (h : Handler)
    (h0 : h.id ∉ w.ran) (h1 : h.id ∉ pre.map (·.id)) (h2 : h.id ∉ post.map (·.id)) :
    h.id ∈ (dispatch k w (pre ++ h :: post)).ran ↔
      ((dispatch k w pre).st = .running ∧ verdict (condEnv (dispatch k w pre) h.kw) h.cond = .yes) := by
  rw [dispatch_append', dispatch_cons]
  obtain ⟨r0, e0, m0⟩ := ran_prefix k w pre
  obtain ⟨r, e, m⟩ := ran_prefix k (stepH k (dispatch k w pre) h) post
  rw [e, stepH_ran, e0]
  have n0 : h.id ∉ r0 := fun x => h1 (m0 _ x)
  have n1 : h.id ∉ r := fun x => h2 (m _ x)
  split
  · next c => simp [c]
  · next c => simp [h0, n0, n1, c]

/-- the verdict of a condition is the truthiness of the value Python's semantics gives the expression (all `and`/`or`
operands evaluated); a missing name, a type error, `None` and an absent location are `False` -/
theorem condition_verdict_is_pythons (env : Env) (e : Expr) :
    verdict env (some e) = .yes ↔ ∃ v, py false false env e = .ok v ∧ truthy v = true := verdict_yes_iff env e

/-- the two together — the statement of the property's last clause for event handlers: a handler registered as
`event{e}` is called iff Python's value of `e` over the values current at its turn is true -/
theorem conditional_handler_acts_on_current_values (k : Kind) (w : World) (pre post : List Handler) (h : Handler) (e : Expr)
    (hc : h.cond = some e) (h0 : h.id ∉ w.ran) (h1 : h.id ∉ pre.map (·.id)) (h2 : h.id ∉ post.map (·.id)) :
    h.id ∈ (dispatch k w (pre ++ h :: post)).ran ↔
      ((dispatch k w pre).st = .running ∧
        ∃ v, py false false (condEnv (dispatch k w pre) h.kw) e = .ok v ∧ truthy v = true) := by
  rw [handler_runs_iff_condition_true_at_its_turn k w pre post h h0 h1 h2, hc, condition_verdict_is_pythons]

/-- a handler whose condition is false at its turn leaves no trace: values, kwargs, log and status are unchanged -/
theorem skipped_handler_has_no_effect (k : Kind) (w : World) (h : Handler) (hv : verdict (condEnv w h.kw) h.cond = .no) :
    stepH k w h = w := by
  unfold stepH
  split
  · rfl
  · rw [hv]

/-- **Conditional config-player entries** (`variable_player: event: var{condition}: …`, `event_player: event: target{condition}`):
the items of one entry are decided one after the other, each on the values the items before it left (`a{machine.a==0}`
setting `machine.a` is seen by the next item's condition); an item acts iff its condition is true there. -/
theorem entry_items_decided_on_current_values (hk : List (String × Val)) (w : World) (pre post : List Step) (s : Step) :
    (pre ++ s :: post).foldl (stepS hk) w = post.foldl (stepS hk) (stepS hk (pre.foldl (stepS hk) w) s) ∧
    (∀ w' : World, w'.st = .running → verdict (condEnv w' hk) s.cond = .yes → stepS hk w' s = applyAct w' s.act) ∧
    (∀ w' : World, verdict (condEnv w' hk) s.cond = .no → stepS hk w' s = w') := by
  refine ⟨by simp [List.foldl_append], ?_, ?_⟩
  · intro w' hr hv
    unfold stepS
    rw [if_neg (by simp [hr]), hv]
  · intro w' hv
    unfold stepS
    split
    · rfl
    · rw [hv]

/-- registering a handler (`add_handler`: append + stable sort by priority, descending) keeps the list the dispatcher
walks ordered by priority, so "its turn" is: after every handler of higher priority and after the earlier-registered
handlers of the same priority -/
theorem handlers_stay_priority_ordered (h : Handler) (hs : List Handler) (s : Sorted hs) : Sorted (insertH h hs) :=
  insertH_sorted h hs s

/-- non-vacuity (the seeded `condition-memo-per-post` scenario): two handlers registered as `ev{machine.a == 0}`; the first
sets `machine.a` to 1.  Only the first runs — although at the start of the post the condition of the second was true, so a
verdict memoised per post would have run it on a stale value. -/
example :
    let c : Expr := .cmp "Eq" (.attr (.name "machine") "a") (.const (.int 0))
    let w : World := { env := { vars := [(("machine", ["a"]), .int 0)] } }
    let h0 : Handler := { id := 0, prio := 2, cond := some c, steps := [{ act := .set ("machine", ["a"]) (.int 1) }] }
    let h1 : Handler := { id := 1, prio := 1, cond := some c }
    (dispatch .post w (insertH h1 (insertH h0 []))).ran = [0] ∧ verdict (condEnv w h1.kw) h1.cond = .yes := by
  decide

/-- non-vacuity (relay): the first handler relays `x = 0`; the second, guarded by `x > 0`, is skipped; and a
`variable_player` entry whose first item sets `machine.a` makes the second item's condition false -/
example :
    let c : Expr := .cmp "Gt" (.name "x") (.const (.int 0))
    let h0 : Handler := { id := 0, prio := 2, cond := some c, ret := [("x", .int 0)] }
    let h1 : Handler := { id := 1, prio := 1, cond := some c }
    (dispatch .relay { kw := [("x", .int 5)] } [h0, h1]).ran = [0] ∧
    (dispatch .post { kw := [("x", .int 5)] } [h0, h1]).ran = [0, 1] := by
  decide

example :
    let c : Expr := .cmp "Eq" (.attr (.name "machine") "a") (.const (.int 0))
    let w : World := { env := { vars := [(("machine", ["a"]), .int 0), (("machine", ["n0"]), .int 0)] } }
    let h : Handler := { id := 0, cond := some c, steps := [{ cond := some c, act := .set ("machine", ["a"]) (.int 1) },
                                                             { cond := some c, act := .add ("machine", ["n0"]) 1 }] }
    (dispatch .post w [h]).env.look ("machine", ["n0"]) = some (.int 0) ∧
    (dispatch .post w [h]).env.look ("machine", ["a"]) = some (.int 1) := by
  decide

end MpfVerif.C16
