import MpfVerif.Lemmas.Show
import MpfVerif.Lemmas.ShowEvents
import MpfVerif.Lemmas.ShowExact
import MpfVerif.Lemmas.ShowKey
import MpfVerif.Lemmas.ShowKeyEvents
import MpfVerif.Lemmas.ShowReplace
import MpfVerif.Lemmas.ShowToken
/-!
# C17 — Shows run on schedule without drift and clean up after themselves

Property theorems only (model: `Model/Show.lean`, helper lemmas: `Lemmas/Show.lean`).
`run {} ops` is a show-player key after an arbitrary sequence of play / stop / pause / resume / advance / step_back /
speed-update requests and timer callbacks (`fire t`: the loop runs the show's step timer at clock time `t`, which may
be later than the timer's deadline).
-/
namespace MpfVerif.C17
open MpfVerif.Show

/-- No drift: a show played (without `sync_ms`) at `t0` with any `start_step` (1-based, negative = counted from the end,
0 or beyond the end = first step, see `firstIdx`) executes, under *every* sequence of timer callbacks (any number, at any
clock times — late callbacks included, callbacks that are not yet due do nothing), a prefix of the absolute schedule:
the first step with start time `t0`, then cyclically each next step with start time
`t0 + Σ (durations of the steps executed before) * spDen / spNum` — for every loop count (a finite loop count only cuts
the schedule off; a hold step `duration: -1` (0 here) ends it) and whether or not the show is set to manual advance (then
only the first step runs). -/
theorem kth_step_time (durs : List Nat) (num den : Nat) (loops : Option Nat) (start : Int) (manual : Bool) (t0 : Nat)
    (ts : List Nat) (hlen : 0 < durs.length) :
    effs (run {} (.play durs num den loops start true manual 0 t0 :: fires ts)).2 <+:
      sched durs num den (ts.length + 1) (firstIdx start durs.length) t0 := by
  simp only [run, step]
  have hstop : stop (setNow ({} : RS) t0) = (setNow {} t0, []) := by unfold stop; simp [setNow]
  rw [hstop]
  simp only [List.nil_append, startPlay, if_true, Bool.not_true]
  exact first_step durs num den ts _ [.played] start t0 hlen rfl rfl rfl rfl rfl rfl rfl (by simp [setNow])

/-- Exact rational arithmetic, any speed: times are numerators over one common denominator (the unit).  When the unit
is fine enough for the speed `num/den` (`Exact`: every `dur * den / num` is an integer — the driver refuses anything
else, so the correspondence never runs the model outside this hypothesis), the `k`-th scheduled step is step
`idxAt k i` and its start time `T` satisfies `T * num = t * num + (Σ_{j<k} dur_j) * den`: *exactly*
`t + (Σ durations) / (num/den)`, the sum taken first and divided once — no per-step rounding, hence no drift, for
speeds like 3, 3/10, 3/2 and step times like 100 ms / 330 ms, over any number of loops. -/
theorem kth_step_time_exact (durs : List Nat) (num den : Nat) (h : Exact durs num den) (k n i t : Nat) (hk : k < n) :
    ∃ T, (sched durs num den n i t)[k]? = some (Obs.eff (idxAt durs.length k i) T) ∧
      T * num = t * num + durSum durs k i * den :=
  sched_kth durs num den h k n i t hk

/-- `sync_ms`: the synchronised start time is a multiple of `sync`, strictly after the play request (never in the
past, never now), at most one period away, and it is the least such multiple. -/
theorem sync_start_is_next_multiple (sync t : Nat) (hs : 0 < sync) :
    sync ∣ syncTime sync t ∧ t < syncTime sync t ∧ syncTime sync t ≤ t + sync ∧
      ∀ m, sync ∣ m → t < m → syncTime sync t ≤ m :=
  ⟨syncTime_dvd sync t, (syncTime_bounds sync t hs).1, (syncTime_bounds sync t hs).2,
    fun m hd hm => syncTime_least sync t m hs hd hm⟩

/-- A show played with `sync_ms` plays nothing before its start timer runs and then follows the absolute schedule
anchored at the *synchronised* time (not at the time the late timer callback happens to run): no drift against the
sync grid, for every sequence of timer callbacks. -/
theorem sync_no_drift (durs : List Nat) (num den : Nat) (loops : Option Nat) (start : Int) (manual : Bool)
    (sync t0 : Nat) (ts : List Nat) (hlen : 0 < durs.length) (hsync : sync ≠ 0) :
    effs (run {} (.play durs num den loops start true manual sync t0 :: fires ts)).2 <+:
      sched durs num den ts.length (firstIdx start durs.length) (syncTime sync t0) := by
  simp only [run, step]
  have hstop : stop (setNow ({} : RS) t0) = (setNow {} t0, []) := by unfold stop; simp [setNow]
  rw [hstop]
  simp only [List.nil_append, startPlay, if_neg hsync]
  have hnow : (setNow ({} : RS) t0).now = t0 := by simp [setNow]
  rw [hnow]
  exact fires_pending durs num den start (syncTime sync t0) hlen ts _ rfl rfl rfl rfl rfl rfl
    rfl ⟨0, by simp [setNow]⟩ rfl

/-- The schedule is the absolute one: the start time of the k-th scheduled step is `t0` plus the sum of the preceding
steps' durations divided by the speed (closed form of `sched`). -/
theorem sched_is_absolute (durs : List Nat) (num den : Nat) : ∀ (k i t : Nat),
    sched durs num den (k + 1) i t =
      Obs.eff i t :: sched durs num den k (nxt durs.length i) (t + durs.getD i 0 * den / num) := by
  intro k i t; rfl

/-- After every request sequence a show has at most one live step timer, and it is the one `stop`/`pause`/`resume`
cancel (a `resume` of a show that is not paused cannot leave a second timer chain behind). -/
theorem single_timer (ops : List Op) :
    (run {} ops).1.timers.length ≤ 1 ∧ ∀ tm ∈ (run {} ops).1.timers, (run {} ops).1.handle = some tm.1 := by
  have h := (run_inv ops {} init_inv).1
  rcases h with h | ⟨id, w, ht, hh⟩
  · rw [h]; simp
  · rw [ht]
    exact ⟨by simp, by intro tm hm; simp only [List.mem_singleton] at hm; subst hm; exact hh⟩

/-- A stopped or completed show produces no further effect, whatever requests and timer callbacks arrive (until it is
played again): it stays stopped, and nothing but the acknowledgement of a `pause` request is emitted — no step, no
clean-up, no played/looped/completed/stopped event. -/
theorem no_effect_after_stop (ops : List Op) : ∀ (s : RS), s.stopped = true → (∀ o ∈ ops, o.isPlay = false) →
    (run s ops).1.stopped = true ∧ ∀ o ∈ (run s ops).2, o = Obs.ev .paused := by
  induction ops with
  | nil => intro s hs _; exact ⟨hs, by intro o ho; simp [run] at ho⟩
  | cons op r ih =>
    intro s hs hp
    have h1 := step_after_stop s op hs (hp op List.mem_cons_self)
    have h2 := ih (step s op).1 h1.1 (fun o ho => hp o (List.mem_cons_of_mem _ ho))
    simp only [run]
    refine ⟨h2.1, ?_⟩
    intro o ho
    rcases List.mem_append.mp ho with ho | ho
    · exact h1.2 o ho
    · exact h2.2 o ho

/-- …and a stopped show has no live timer (so nothing can run later either). -/
theorem no_timer_after_stop (ops : List Op) (h : (run {} ops).1.stopped = true) : (run {} ops).1.timers = [] :=
  ((run_inv ops {} init_inv).2 h).1

/-- Clean-up: after every request sequence, whenever the show is stopped (by request, by replacement or by
completing), the context it used in the players has been cleared (`_players` is empty again). -/
theorem context_removed (ops : List Op) (h : (run {} ops).1.stopped = true) : (run {} ops).1.dirty = false :=
  ((run_inv ops {} init_inv).2 h).2

/-- Events once: for every show and every sequence of requests and timer callbacks following its `play`, `played`
is posted at most once — exactly once when the show is played without `sync_ms`; with `sync_ms` exactly when it was
started (`started`: its start timer ran, or a resume/advance/step_back request started it before that; a show that is
stopped before its synchronised start never posts it) —, `stopped` exactly once if the instance ends up stopped (by request or by completing) and not
at all while it runs, `completed` at most once and only together with `stopped`, and `looped` exactly once per consumed
loop (granted loops = `looped` events + loops left; for an endless show every wrap posts one, see `looped_with_wrap`). -/
theorem events_once (durs : List Nat) (num den : Nat) (loops : Option Nat) (start : Int) (running manual : Bool)
    (sync t : Nat) (rest : List Op) (hp : ∀ o ∈ rest, o.isPlay = false) :
    let r := run {} (.play durs num den loops start running manual sync t :: rest)
    cntE .played r.2 = (if r.1.started then 1 else 0) ∧ (sync = 0 → cntE .played r.2 = 1) ∧
    cntE .stopped r.2 = (if r.1.stopped then 1 else 0) ∧
    cntE .completed r.2 ≤ cntE .stopped r.2 ∧
    (match loops, r.1.loops with
      | some n, some m => cntE .looped r.2 + m = n
      | none, none => True
      | _, _ => False) := by
  simp only [run]
  have h0 := play_ledger durs num den loops start running manual sync t
  have h := run_ledger loops rest _ _ hp h0
  refine ⟨h.1, ?_, h.2.1, h.2.2.1, h.2.2.2.1⟩
  intro hs
  have h1 : cntE .played (step {} (.play durs num den loops start running manual sync t)).2 = 1 := by
    rw [h0.1]
    have : (step {} (.play durs num den loops start running manual sync t)).1.started = true := by
      subst hs
      simp only [step, startPlay, if_true]
      exact (runNext_ghost _ _ _).1
    rw [this]; rfl
  have h2 := h.1
  rw [cntE_append, h1] at h2 ⊢
  split at h2 <;> omega

/-- `looped` is posted exactly when a step wraps around: every `_run_next_step` of a running show emits either one step
`eff i t` followed by the request's events and — iff the index wrapped to step 0, consuming one loop — `looped`; or,
with the loop budget exhausted, the stopping sequence. -/
theorem looped_with_wrap (s : RS) (post : List Ev) (pa : Bool) (hs : s.stopped = false) :
    RunRes s post (runNext s post pa) := runNext_out s post pa hs

/-- The stopping step: the one request or timer callback that stops a running show emits, in this order, the clean-up
of its context (if it played anything), `stopped`, and then either nothing (a stop request) or the request's own
acknowledgement (`played` for a show that completes in its very first step) followed by `completed` (the show ran out of loops) — the order in which `RunningShow` posts them:
`stop()` first, `events_when_completed` last.  Together with `events_once` (exactly one `stopped` in the whole trace)
and `no_effect_after_stop` this fixes the position of every event. -/
theorem stopping_step_order (s : RS) (o : Op) (hp : o.isPlay = false) (hs : s.stopped = false)
    (h : (step s o).1.stopped = true) :
    ∃ pre post, (step s o).2 = pre ++ Obs.ev .stopped :: post ∧ (∀ x ∈ pre, x = Obs.clr) ∧
      (post = [] ∨ ∃ acks, post = acks.map Obs.ev ++ [Obs.ev .completed] ∧ IsAck' acks) :=
  step_stop_shape s o hp hs h

/-- …and nothing but `paused` acknowledgements after `stopped`. -/
theorem nothing_after_stopped (ops : List Op) (s : RS) (hs : s.stopped = true) (hp : ∀ o ∈ ops, o.isPlay = false)
    (e : Ev) (he : e ≠ .paused) : Obs.ev e ∉ (run s ops).2 := by
  intro hmem
  have := (no_effect_after_stop ops s hs hp).2 _ hmem
  simp only [Obs.ev.injEq] at this
  exact he this

/-! ### replacement in sync: several instances under one show-player key (`Model/ShowKey.lean`)

`ShowKey.run {} ops` is a show-player key after an arbitrary sequence of `play` requests (each creates a new instance; one
that is played with `sync_ms` over an instance that still runs holds the *deferred stop* of that instance), requests for
the key (`req`: stop — also the end of the mode that owns the show player —, pause, resume, advance, step_back, speed
update; they reach the newest instance) and timer callbacks of any instance (`fire i t`).  `insts` lists all instances
ever created, newest first. -/

open MpfVerif.ShowKey in
/-- The deferred stop is never lost: after every sequence of plays, requests and timer callbacks, for every instance
`x` ever created under the key — as soon as `x` has started (its sync timer ran, or a resume/advance/step_back request
started it) **or** has been stopped (also: stopped before it ever started, e.g. after a pause cancelled its sync timer)
every instance created before it is stopped: a replaced show never runs on beside / after its replacement. -/
theorem replaced_show_stopped (ops : List KOp) (pre : List Inst) (x : Inst) (rest : List Inst)
    (h : (ShowKey.run {} ops).1.insts = pre ++ x :: rest) (hx : x.rs.started = true ∨ x.rs.stopped = true) :
    ∀ y ∈ rest, y.rs.stopped = true := by
  have hg := run_good ops {} trivial
  rw [h] at hg
  have hg' := good_suffix pre _ hg
  apply hg'.2.2.1
  cases hr : x.replaces with
  | none => rfl
  | some j =>
    have := hg'.2.1 (by rw [hr]; rfl)
    rcases hx with hx | hx
    · rw [this.1] at hx; cases hx
    · rw [this.2.1] at hx; cases hx

open MpfVerif.ShowKey in
/-- Events once, for every instance of the key: in the projection of the key's trace on the instance with id
`rest.length` (`proj`: what that `RunningShow` itself did and posted), `stopped` occurs exactly once if the instance is
stopped and not at all while it runs — a deferred stop, a replacement at once, a stop request, a completion and any later
request together never post it twice —, `played` exactly once iff the instance has started, `completed` at most once and
only with `stopped`. -/
theorem instance_events_once (ops : List KOp) (pre : List Inst) (x : Inst) (rest : List Inst)
    (h : (ShowKey.run {} ops).1.insts = pre ++ x :: rest) :
    cntE .stopped (proj rest.length (ShowKey.run {} ops).2) = (if x.rs.stopped then 1 else 0) ∧
    cntE .played (proj rest.length (ShowKey.run {} ops).2) = (if x.rs.started then 1 else 0) ∧
    cntE .completed (proj rest.length (ShowKey.run {} ops).2) ≤ cntE .stopped (proj rest.length (ShowKey.run {} ops).2) := by
  have hl := (run_led ops {} [] ⟨trivial, by intro y hy; simp at hy⟩).1
  rw [List.nil_append, h] at hl
  obtain ⟨n0, a, b, c, _⟩ := (led_suffix _ pre _ hl).1
  exact ⟨b, a, c⟩

open MpfVerif.ShowKey in
/-- **The replaced show is stopped exactly once.**  Whenever a replacement `x` has started *or* has been stopped
(before or after it started), every instance `y` created before it under the key — the show it replaced, and
transitively what that one had replaced — is stopped (never both running), and `y`'s `stopped` event occurs exactly once
in the whole trace (never stopped twice: not by the deferred stop *and* a later stop request / timer / replacement). -/
theorem replaced_show_stopped_exactly_once (ops : List KOp) (pre : List Inst) (x : Inst) (mid : List Inst) (y : Inst)
    (rest : List Inst) (h : (ShowKey.run {} ops).1.insts = pre ++ x :: (mid ++ y :: rest))
    (hx : x.rs.started = true ∨ x.rs.stopped = true) :
    y.rs.stopped = true ∧ cntE .stopped (proj rest.length (ShowKey.run {} ops).2) = 1 := by
  have hy := replaced_show_stopped ops pre x _ h hx y (by simp)
  have h' : (ShowKey.run {} ops).1.insts = (pre ++ x :: mid) ++ y :: rest := by rw [h]; simp
  have := (instance_events_once ops _ y rest h').1
  rw [hy] at this
  exact ⟨hy, this⟩

open MpfVerif.ShowKey in
/-- …and an instance that still holds a deferred stop has not started and is not stopped (it is a replacement waiting
for its sync point), and what it holds is the stop of the instance created just before it. -/
theorem replaces_previous (ops : List KOp) (pre : List Inst) (x : Inst) (rest : List Inst) (j : Nat)
    (h : (ShowKey.run {} ops).1.insts = pre ++ x :: rest) (hj : x.replaces = some j) :
    x.rs.started = false ∧ x.rs.stopped = false ∧ j + 1 = rest.length := by
  have hg := run_good ops {} trivial
  rw [h] at hg
  have hg' := (good_suffix pre _ hg).2.1 (by rw [hj]; rfl)
  refine ⟨hg'.1, hg'.2.1, ?_⟩
  have h1 := hg'.2.2.1
  rw [hj] at h1
  have h2 : rest.length ≠ 0 := fun h0 => hg'.2.2.2 (List.eq_nil_of_length_eq_zero h0)
  simp only [Option.some.injEq] at h1
  omega

open MpfVerif.ShowKey in
/-- Never both running after the key is stopped: whatever happened before (replacements waiting for their sync point,
paused, advanced, chains of them), after a stop request for the key (or the end of its mode: `clear_context` stops the
instance in the dict) **no** instance ever created under the key runs. -/
theorem key_stopped_nothing_runs (ops : List KOp) (t : Nat) :
    ∀ y ∈ (ShowKey.run {} (ops ++ [.req (.stop t)])).1.insts, y.rs.stopped = true := by
  rw [run_append]
  simp only [ShowKey.run, ShowKey.step, reqStep, isReq, if_true]
  have hg := run_good ops {} trivial
  have hk := run_known ops {} (by intro y hy; simp at hy)
  generalize (ShowKey.run {} ops).1 = s1 at hg hk
  cases hl : s1.insts with
  | nil => intro y hy; simp [stepAt] at hy
  | cons x rest =>
    rw [hl] at hg hk
    obtain ⟨y, rest', he, hy⟩ := stepAt_head (.stop t) x rest
    have hg2 := (stepAt_good ((x :: rest).length - 1) (.stop t) rfl (x :: rest) hg).1
    rw [he] at hg2 ⊢
    have hs : y.rs.stopped = true := by rw [hy]; exact stop_req_stops x.rs t (hk x List.mem_cons_self)
    exact (allStopped_cons _ _).mpr ⟨hs, (good_stopped_head y rest' hg2 hs).2⟩

open MpfVerif.ShowKey in
/-- `context_removed` for every instance of the key (the replaced ones included): whenever an instance is stopped — by
request, by replacement at once, by the deferred stop, or by completing — its context is cleared in every player it
used and it has no live timer; and no instance ever has more than one live timer. -/
theorem context_removed_all (ops : List KOp) : ∀ x ∈ (ShowKey.run {} ops).1.insts,
    x.rs.timers.length ≤ 1 ∧ (x.rs.stopped = true → x.rs.dirty = false ∧ x.rs.timers = []) := by
  intro x hx
  have hi := good_mem _ (run_good ops {} trivial) x hx
  refine ⟨?_, fun hs => ⟨(hi.2 hs).2, (hi.2 hs).1⟩⟩
  rcases hi.1 with h | ⟨id, w, ht, _⟩
  · rw [h]; simp
  · rw [ht]; simp

/-! ### a repeated play: `ShowController.replace_or_advance_show` keeps, advances or replaces (`KOp.playc`)

`playc cid …` is a play whose show-player entry has no `events_when_played` / `events_when_stopped` / `block_queue`: the show
controller compares the new `ShowConfig` with the instance in the dict (`decision`: `keep` = `return old_instance`,
`advance` = `old_instance.advance()`, `replace` = a new `RunningShow`, the old one stopped at once or in sync).  All
theorems above quantify over op sequences that contain such plays. -/

open MpfVerif.ShowKey in
/-- **A show that still waits for its sync point is never started by a repeated play.**  For *every* state of a key
whose newest instance `x` is waiting for its synchronised start (`pending`, not stopped) and for every repeated play
(any config — the identical one included —, any start step, any instant): the decision is `replace`, never `keep` or
`advance`; with `sync_ms` the request emits nothing at all and leaves `x` exactly as it was — same sync timer, same
start time on the sync grid — below a new waiting instance that holds `x`'s deferred stop; without `sync_ms` `x` is
stopped (its clean-up and `stopped` are all it emits).  In no case does `x` play a step or post `played` off the grid. -/
theorem repeated_play_keeps_sync (s : KS) (x : Inst) (rest : List Inst) (h : s.insts = x :: rest)
    (hp : x.rs.pending = true) (hs : x.rs.stopped = false)
    (cid : Nat) (durs : List Nat) (num den : Nat) (loops : Option Nat) (start : Int) (running manual : Bool) (sync t : Nat) :
    decision x cid num den loops manual sync start = .replace ∧
    (sync ≠ 0 → ∃ y, (ShowKey.step s (.playc cid durs num den loops start running manual sync t)).1.insts = y :: x :: rest ∧
        y.replaces = some rest.length ∧ y.rs.started = false ∧ y.rs.stopped = false ∧
        (ShowKey.step s (.playc cid durs num den loops start running manual sync t)).2 = []) ∧
    (∀ o ∈ (ShowKey.step s (.playc cid durs num den loops start running manual sync t)).2, o.1 = rest.length →
        o.2 = Obs.clr ∨ o.2 = Obs.ev .stopped) := by
  have hd := decision_pending x cid num den loops manual sync start hp
  have hstep : ShowKey.step s (.playc cid durs num den loops start running manual sync t) =
      playNew (some (cid, loops, sync)) s durs num den loops start running manual sync t := by
    simp only [ShowKey.step, h, hd]
  rw [hstep]
  refine ⟨hd, ?_, ?_⟩
  · intro hsync
    have ff := fresh_sync durs num den loops start running manual sync t hsync
    have fs := fresh_sync_silent durs num den loops start running manual sync t hsync
    simp only [playNew, h, hs, hsync, ne_eq, not_false_eq_true, if_true, Bool.false_eq_true, if_false, fs]
    exact ⟨_, rfl, rfl, ff.1, ff.2, rfl⟩
  · intro o ho hk
    by_cases hsync : sync ≠ 0
    · have fs := fresh_sync_silent durs num den loops start running manual sync t hsync
      simp only [playNew, h, hs, hsync, ne_eq, not_false_eq_true, if_true, Bool.false_eq_true, if_false, fs] at ho
      simp [tag] at ho
    · simp only [playNew, h, hs, hsync, Bool.false_eq_true, if_false] at ho
      rcases List.mem_append.mp ho with h1 | h1
      · exact stopFrom_head_obs x rest o h1 hk
      · have := below_tag (x :: rest).length ((x :: rest).length + 1) (by omega) _ o h1
        simp only [tag, List.mem_map] at h1
        obtain ⟨b, _, rfl⟩ := h1
        simp at hk

open MpfVerif.ShowKey in
/-- **A kept instance's schedule is unchanged.**  When `replace_or_advance_show` keeps the old instance (it runs the
identical config and is *at* the requested start step) the request emits nothing and changes no instance of the key —
timers, next step time, step index, loops all stay — and therefore every continuation (any requests, timer callbacks,
further plays) produces exactly the trace and the instances it would have produced without the repeated play. -/
theorem kept_instance_unchanged (s : KS) (x : Inst) (rest : List Inst) (h : s.insts = x :: rest)
    (cid : Nat) (durs : List Nat) (num den : Nat) (loops : Option Nat) (start : Int) (running manual : Bool) (sync t : Nat)
    (hd : decision x cid num den loops manual sync start = .keep) (ops : List KOp) :
    (ShowKey.step s (.playc cid durs num den loops start running manual sync t)).1.insts = s.insts ∧
    (ShowKey.step s (.playc cid durs num den loops start running manual sync t)).2 = [] ∧
    (ShowKey.run (ShowKey.step s (.playc cid durs num den loops start running manual sync t)).1 ops).2 = (ShowKey.run s ops).2 ∧
    (ShowKey.run (ShowKey.step s (.playc cid durs num den loops start running manual sync t)).1 ops).1.insts =
      (ShowKey.run s ops).1.insts := by
  have hstep : ShowKey.step s (.playc cid durs num den loops start running manual sync t) = ({ s with now := max s.now t }, []) := by
    simp only [ShowKey.step, h, hd]
  rw [hstep]
  have := run_insts_congr ops { s with now := max s.now t } s rfl
  exact ⟨rfl, rfl, this.2, this.1⟩

open MpfVerif.ShowKey in
/-- The `advance` shortcut is exactly an advance request for the key (so everything proved about requests holds for
it), and it is taken — like `keep` — only for an instance that runs, has already played a step (it is not waiting for its
sync point), runs the identical config (same config id = show, priority, tokens; same loops, sync_ms, and the *current*
speed and manual_advance, which follow update requests) and is exactly one step before the requested start step; a
different speed, different show tokens or any other difference in the config always replaces. -/
theorem advance_is_advance_request (s : KS) (x : Inst) (rest : List Inst) (h : s.insts = x :: rest)
    (cid : Nat) (durs : List Nat) (num den : Nat) (loops : Option Nat) (start : Int) (running manual : Bool) (sync t : Nat) :
    (decision x cid num den loops manual sync start = .advance →
      ShowKey.step s (.playc cid durs num den loops start running manual sync t) = ShowKey.step s (.req (.advance t))) ∧
    (decision x cid num den loops manual sync start ≠ .replace →
      x.rs.stopped = false ∧ x.rs.pending = false ∧ sameCfg x cid num den loops manual sync = true ∧
      ((decision x cid num den loops manual sync start = .keep ∧ x.rs.nextIdx = start) ∨
       (decision x cid num den loops manual sync start = .advance ∧ x.rs.nextIdx + 1 = start))) ∧
    (sameCfg x cid num den loops manual sync = false → decision x cid num den loops manual sync start = .replace) := by
  refine ⟨fun hd => by simp only [ShowKey.step, h, hd], decision_not_replace x cid num den loops manual sync start, ?_⟩
  intro hc
  unfold decision
  split
  · rfl
  · simp [hc]

/-! ### show tokens (`Model/ShowToken.lean`: `Show.get_show_steps_with_token`)

A show is the list of its flattened entries (path of dict keys, scalar value), every string a list of segments
(literal text / token `(name)`, produced by the scanner `scan`); `subst toks` is what a play with `show_tokens = toks` runs. -/

open MpfVerif.ShowToken in
/-- Total: when every token of the show is supplied, no token is left anywhere — in no value, in no key, at no depth,
however many tokens a key or value contains. -/
theorem tokens_total (toks : Toks) (sh : List Entry) (h : ∀ n ∈ tokensOf sh, (lookup toks n).isSome = true) :
    tokensOf (subst toks sh) = [] := subst_noTok toks sh h

open MpfVerif.ShowToken in
/-- Capture-free: replacing one token after the other — all tokens through the values, then all tokens through the keys,
as `_replace_token_values` / `_replace_token_keys` do — is the simultaneous substitution: a replacement value is never
looked at again by a later token, and the order of the tokens in `show_tokens` does not matter beyond "first entry of a
name wins". -/
theorem tokens_capture_free (toks : Toks) (sh : List Entry) : substSeq toks sh = subst toks sh := substSeq_eq toks sh

open MpfVerif.ShowToken in
/-- Identity without tokens: a show without tokens is played as it is whatever tokens are supplied, a show played
without tokens is unchanged, and supplied tokens that do not occur in the show change nothing (only the values of the
tokens that occur matter). -/
theorem tokens_identity (toks toks' : Toks) (sh : List Entry) :
    (tokensOf sh = [] → subst toks sh = sh) ∧ subst [] sh = sh ∧
    ((∀ n ∈ tokensOf sh, lookup toks n = lookup toks' n) → subst toks sh = subst toks' sh) := by
  refine ⟨fun h => ?_, subst_nil sh, subst_congr toks toks' sh⟩
  rw [subst_congr toks [] sh (by rw [h]; intro n hn; cases hn), subst_nil]

/-! ### the hypotheses are satisfiable on non-trivial runs (kernel evaluation) -/

example : effs (run {} (.play [8, 16, 8] 2 1 none 2 true false 0 64 :: fires [72, 76, 81, 200, 201])).2 =
    [.eff 1 64, .eff 2 72, .eff 0 76, .eff 1 80, .eff 2 88, .eff 0 92] := by decide
example : (run {} [.play [8, 8] 1 1 (some 0) 1 true false 0 64, .fire 72, .fire 80, .back 90, .fire 200]).1.stopped = true := by
  decide
example : (run {} [.play [8, 8] 1 1 none 1 true false 0 64, .resume 66, .stop 70]).1.timers = [] := by decide
example : (run {} [.play [8, 8] 1 1 (some 1) 1 true false 0 64, .fire 72, .fire 80, .fire 88, .fire 96, .back 99]).2 =
    [.eff 0 64, .ev .played, .eff 1 72, .eff 0 80, .ev .looped, .eff 1 88, .clr, .ev .stopped, .ev .completed] := by decide
-- speed 3 with step times 100 ms / 330 ms in units of 1/3 ms: 100 and 110 units, exact; the third loop starts at 3 * 210
example : Exact [300, 990] 3 1 := (exactFor_iff _ _ _).mp (by decide)
example : effs (run {} (.play [300, 990] 3 1 none 1 true false 0 1000 :: fires [1100, 1430, 1530, 1860, 1960, 2290])).2 =
    [.eff 0 1000, .eff 1 1100, .eff 0 1430, .eff 1 1530, .eff 0 1860, .eff 1 1960, .eff 0 2290] := by decide
-- sync 500 at t = 1125: nothing before 1500, then the schedule from 1500 although the start callback is late (1503)
example : (run {} (.play [100, 330] 1 1 none (-1) true false 500 1125 :: fires [1400, 1503, 1830])).2 =
    [.eff 1 1500, .ev .played, .eff 0 1830, .ev .looped] := by decide
example : syncTime 500 1500 = 2000 := by decide
-- start_step beyond the end with loops 0: the show completes at once
example : (run {} [.play [8, 8] 1 1 (some 0) 5 true false 0 64]).2 = [.ev .stopped, .ev .played, .ev .completed] := by decide
-- a synchronised show advanced before its start is started by the request: `played` is posted (the repaired code)
example : (run {} [.play [8, 8] 1 1 none 1 true false 32 65, .advance 70, .fire 78, .stop 80]).2 =
    [.eff 0 70, .ev .played, .eff 1 78, .clr, .ev .stopped] := by decide

-- replacement in sync: A runs (instance 0); B is played with sync 32 over it at 75 and waits; a pause cancels B's sync
-- timer; the stop request then stops A first (the deferred stop), then B: nothing runs any more
open MpfVerif.ShowKey in
example : (ShowKey.run {} [.play [8, 8] 1 1 none 1 true false 0 64, .fire 0 72, .play [4, 4] 1 1 none 1 true false 32 75,
      .fire 0 80, .req (.pause 82), .req (.stop 85)]).2 =
    [(0, .eff 0 64), (0, .ev .played), (0, .eff 1 72), (0, .eff 0 80), (0, .ev .looped), (1, .ev .paused),
     (0, .clr), (0, .ev .stopped), (1, .ev .stopped)] := by decide
-- ... or B starts at its sync point 96: A is stopped in the same callback, before B's first step
open MpfVerif.ShowKey in
example : (ShowKey.run {} [.play [8, 8] 1 1 none 1 true false 0 64, .play [4, 4] 1 1 none 1 true false 32 75,
      .fire 1 96]).2 =
    [(0, .eff 0 64), (0, .ev .played), (0, .clr), (0, .ev .stopped), (1, .eff 0 96), (1, .ev .played)] := by decide
-- a chain: three waiting replacements over a running show, released by one stop request (oldest first)
open MpfVerif.ShowKey in
example : ((ShowKey.run {} [.play [8] 1 1 none 1 true false 0 64, .play [8] 1 1 none 1 true false 32 65,
      .play [8] 1 1 none 1 true false 32 66, .play [8] 1 1 none 1 true false 32 67, .req (.stop 70)]).2.map (·.1)) =
    [0, 0, 0, 0, 1, 2, 3] := by decide

-- a repeated play (`playc`, config id 7) of a show that still waits for its sync point 96 never starts it: each repeat is
-- a new waiting instance holding the deferred stop of the one before; nothing is played before 96, and at 96 the oldest
-- starts on the grid (`played` etc. are the model's start/stop marks: such an entry has no events; the timers of the newer ones, due at the same instant, then replace it in turn)
open MpfVerif.ShowKey in
example : (ShowKey.run {} [.playc 7 [8, 8] 1 1 none 1 true false 32 65, .playc 7 [8, 8] 1 1 none 1 true false 32 70,
      .playc 7 [8, 8] 1 1 none 2 true false 32 71, .fire 0 96]).2 = [(0, .eff 0 96), (0, .ev .played)] := by decide
-- keep: the same play again right after the start (the show is at step 1 = start_step): nothing happens, the timer at 72
-- runs step 2 on schedule; advance: start_step 3 while at step 2 is an advance request (step 3 now, at 75); a play of the
-- same entry at another step replaces (the old instance is stopped, a new one starts at step 1)
open MpfVerif.ShowKey in
example : (ShowKey.run {} [.playc 7 [8, 8, 8] 1 1 none 1 true false 0 64, .playc 7 [8, 8, 8] 1 1 none 1 true false 0 66,
      .fire 0 72, .playc 7 [8, 8, 8] 1 1 none 3 true false 0 75, .playc 7 [8, 8, 8] 1 1 none 1 true false 0 76]).2 =
    [(0, .eff 0 64), (0, .ev .played), (0, .eff 1 72), (0, .eff 2 75), (0, .ev .advanced), (0, .clr), (0, .ev .stopped),
     (1, .eff 0 76), (1, .ev .played)] := by decide
-- a different speed (after an update request the *current* speed counts) or another config id replaces
open MpfVerif.ShowKey in
example : ((ShowKey.run {} [.playc 7 [8, 8] 1 1 none 1 true false 0 64, .req (.speed 2 1 65),
      .playc 7 [8, 8] 1 1 none 1 true false 0 66, .playc 7 [8, 8] 1 1 none 1 true false 0 67,
      .playc 7 [8, 8] 2 1 none 1 true false 0 68, .playc 7 [8, 8] 2 1 none 1 true false 0 69,
      .playc 8 [8, 8] 2 1 none 1 true false 0 70]).2.filter (fun o => o.2 == Obs.ev .stopped)).map (·.1) = [0, 1, 2] := by
  decide

-- tokens: the scanner, a key with two tokens above a token key (fix 4ec5a75), a time string, a missing token stays
open MpfVerif.ShowToken in
example : scan "s(e)v_(nm)_0".toList = some [.lit ['s'], .tok ['e'], .lit "v_".toList, .tok "nm".toList, .lit "_0".toList] := by
  decide
open MpfVerif.ShowToken in
example : (scan "()a)x(".toList).map render = some "()a)x(".toList := by decide
open MpfVerif.ShowToken in
example : (subst [("a".toList, "1".toList), ("b".toList, "2".toList)]
      [{ path := [[.tok "a".toList, .tok "b".toList], [.tok "b".toList]], val := [.lit ['v'], .tok "a".toList, .tok "c".toList] }]).map
      (fun e => (e.path.map (fun k => String.ofList (render k)), String.ofList (render e.val))) = [(["12", "2"], "v1(c)")] := by decide

end MpfVerif.C17
