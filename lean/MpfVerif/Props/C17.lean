import MpfVerif.Lemmas.Show
import MpfVerif.Lemmas.ShowEvents
/-!
# C17 — Shows run on schedule without drift and clean up after themselves

Property theorems only (model: `Model/Show.lean`, helper lemmas: `Lemmas/Show.lean`).
`run {} ops` is a show-player key after an arbitrary sequence of play / stop / pause / resume / advance / step_back /
speed-update requests and timer callbacks (`fire t`: the loop runs the show's step timer at clock time `t`, which may
be later than the timer's deadline).
-/
namespace MpfVerif.C17
open MpfVerif.Show

/-- No drift: a show played at `t0` from step `start` executes, under *every* sequence of timer callbacks (any number,
at any clock times — late callbacks included, callbacks that are not yet due do nothing), a prefix of the absolute
schedule: step `start-1` with start time `t0`, then cyclically each next step with start time
`t0 + Σ (durations of the steps executed before) * spDen / spNum` — for every loop count (a finite loop count only cuts
the schedule off) and whether or not the show is set to manual advance (then only the first step runs). -/
theorem kth_step_time (durs : List Nat) (num den : Nat) (loops : Option Nat) (start : Nat) (manual : Bool) (t0 : Nat)
    (ts : List Nat) (h1 : 1 ≤ start) (h2 : start ≤ durs.length) :
    effs (run {} (.play durs num den loops start true manual t0 :: fires ts)).2 <+:
      sched durs num den (ts.length + 1) (start - 1) t0 := by
  simp only [run, step]
  have hstop : stop (setNow ({} : RS) t0) = (setNow {} t0, []) := by unfold stop; simp [setNow]
  rw [hstop]
  simp only [List.nil_append]
  exact first_step durs num den ts _ start t0 h1 h2 rfl rfl rfl rfl rfl rfl (by simp [setNow])

/-- The schedule is the absolute one: the start time of the k-th scheduled step is `t0` plus the sum of the preceding
steps' durations divided by the speed (closed form of `sched`). -/
theorem sched_is_absolute (durs : List Nat) (num den : Nat) : ∀ (k i t : Nat),
    sched durs num den (k + 1) i t =
      Obs.eff i t :: sched durs num den k (nxt durs.length i) (t + durs.getD i 0 * den / num) := by
  intro k i t; rfl

/-- After every request sequence a show has at most one live step timer, and it is the one `stop`/`pause`/`resume`
cancel (a `resume` of a show that is not paused cannot leave a second timer chain behind). -/
theorem single_timer (ops : List Op) :
    (run {} ops).1.timers.length ≤ 1 ∧ ∀ tm ∈ (run {} ops).1.timers, (run {} ops).1.handle = some tm.1 := by
  have h := (run_inv ops {} init_inv).1
  rcases h with h | ⟨id, w, ht, hh⟩
  · rw [h]; simp
  · rw [ht]
    exact ⟨by simp, by intro tm hm; simp only [List.mem_singleton] at hm; subst hm; exact hh⟩

/-- A stopped or completed show produces no further effect, whatever requests and timer callbacks arrive (until it is
played again): it stays stopped, and nothing but the acknowledgement of a `pause` request is emitted — no step, no
clean-up, no played/looped/completed/stopped event. -/
theorem no_effect_after_stop (ops : List Op) : ∀ (s : RS), s.stopped = true → (∀ o ∈ ops, o.isPlay = false) →
    (run s ops).1.stopped = true ∧ ∀ o ∈ (run s ops).2, o = Obs.ev .paused := by
  induction ops with
  | nil => intro s hs _; exact ⟨hs, by intro o ho; simp [run] at ho⟩
  | cons op r ih =>
    intro s hs hp
    have h1 := step_after_stop s op hs (hp op List.mem_cons_self)
    have h2 := ih (step s op).1 h1.1 (fun o ho => hp o (List.mem_cons_of_mem _ ho))
    simp only [run]
    refine ⟨h2.1, ?_⟩
    intro o ho
    rcases List.mem_append.mp ho with ho | ho
    · exact h1.2 o ho
    · exact h2.2 o ho

/-- …and a stopped show has no live timer (so nothing can run later either). -/
theorem no_timer_after_stop (ops : List Op) (h : (run {} ops).1.stopped = true) : (run {} ops).1.timers = [] :=
  ((run_inv ops {} init_inv).2 h).1

/-- Clean-up: after every request sequence, whenever the show is stopped (by request, by replacement or by
completing), the context it used in the players has been cleared (`_players` is empty again). -/
theorem context_removed (ops : List Op) (h : (run {} ops).1.stopped = true) : (run {} ops).1.dirty = false :=
  ((run_inv ops {} init_inv).2 h).2

/-- Events once: for every show and every sequence of requests and timer callbacks following its `play`, `played`
is posted exactly once, `stopped` exactly once if the instance ends up stopped (by request or by completing) and not
at all while it runs, `completed` at most once and only together with `stopped`, and `looped` exactly once per consumed
loop (granted loops = `looped` events + loops left; for an endless show every wrap posts one, see `looped_with_wrap`). -/
theorem events_once (durs : List Nat) (num den : Nat) (loops : Option Nat) (start : Nat) (running manual : Bool) (t : Nat)
    (rest : List Op) (hp : ∀ o ∈ rest, o.isPlay = false) :
    let r := run {} (.play durs num den loops start running manual t :: rest)
    cntE .played r.2 = 1 ∧
    cntE .stopped r.2 = (if r.1.stopped then 1 else 0) ∧
    cntE .completed r.2 ≤ cntE .stopped r.2 ∧
    (match loops, r.1.loops with
      | some n, some m => cntE .looped r.2 + m = n
      | none, none => True
      | _, _ => False) := by
  simp only [run]
  exact run_ledger loops rest _ _ hp (play_ledger durs num den loops start running manual t)

/-- `looped` is posted exactly when a step wraps around: every `_run_next_step` of a running show emits either one step
`eff i t` followed by the request's events and — iff the index wrapped to step 0, consuming one loop — `looped`; or,
with the loop budget exhausted, the stopping sequence. -/
theorem looped_with_wrap (s : RS) (post : List Ev) (pa : Bool) (hs : s.stopped = false) :
    RunRes s post (runNext s post pa) := runNext_out s post pa hs

/-- The stopping step: the one request or timer callback that stops a running show emits, in this order, the clean-up
of its context (if it played anything), `stopped`, and then either nothing (a stop request) or the request's own
acknowledgement followed by `completed` (the show ran out of loops) — the order in which `RunningShow` posts them:
`stop()` first, `events_when_completed` last.  Together with `events_once` (exactly one `stopped` in the whole trace)
and `no_effect_after_stop` this fixes the position of every event. -/
theorem stopping_step_order (s : RS) (o : Op) (hp : o.isPlay = false) (hs : s.stopped = false)
    (h : (step s o).1.stopped = true) :
    ∃ pre post, (step s o).2 = pre ++ Obs.ev .stopped :: post ∧ (∀ x ∈ pre, x = Obs.clr) ∧
      (post = [] ∨ ∃ acks, post = acks.map Obs.ev ++ [Obs.ev .completed] ∧ IsAck acks) :=
  step_stop_shape s o hp hs h

/-- …and nothing but `paused` acknowledgements after `stopped`. -/
theorem nothing_after_stopped (ops : List Op) (s : RS) (hs : s.stopped = true) (hp : ∀ o ∈ ops, o.isPlay = false)
    (e : Ev) (he : e ≠ .paused) : Obs.ev e ∉ (run s ops).2 := by
  intro hmem
  have := (no_effect_after_stop ops s hs hp).2 _ hmem
  simp only [Obs.ev.injEq] at this
  exact he this

/-! ### the hypotheses are satisfiable on non-trivial runs (kernel evaluation) -/

example : effs (run {} (.play [8, 16, 8] 2 1 none 2 true false 64 :: fires [72, 76, 81, 200, 201])).2 =
    [.eff 1 64, .eff 2 72, .eff 0 76, .eff 1 80, .eff 2 88, .eff 0 92] := by decide
example : (run {} [.play [8, 8] 1 1 (some 0) 1 true false 64, .fire 72, .fire 80, .back 90, .fire 200]).1.stopped = true := by
  decide
example : (run {} [.play [8, 8] 1 1 none 1 true false 64, .resume 66, .stop 70]).1.timers = [] := by decide
example : (run {} [.play [8, 8] 1 1 (some 1) 1 true false 64, .fire 72, .fire 80, .fire 88, .fire 96, .back 99]).2 =
    [.eff 0 64, .ev .played, .eff 1 72, .eff 0 80, .ev .looped, .eff 1 88, .clr, .ev .stopped, .ev .completed] := by decide

end MpfVerif.C17
