import MpfVerif.Lemmas.BallLedgerHeading
import MpfVerif.Lemmas.BallLedgerEC
/-!
# C04 — ball counts agree with the physical machine and are conserved (PARTIAL: theorems about the ledger protocol)

The theorems quantify over **every** history of ledger transitions (`run c (initSt c counts) ops = some s`: every
transition of `ops` was enabled).  That the asyncio coroutines of `mpf/devices/ball_device/*.py` only perform such
histories is *not* proved; it is checked at run time by the refinement monitor of `harness/corr/C04.py`.
-/
namespace MpfVerif.C04
open MpfVerif.BallLedger

/-- **claims ledger**: after every history of planning / lost / found / capture transitions the `available_balls` of all
devices and playfields sum to `num_balls_known` (each transition moves one claim or adjusts both sides). -/
theorem avail_conservation (c : Cfg) (counts : List Int) (hl : counts.length = c.n) (ops : List Op) (s : St)
    (h : run c (initSt c counts) ops = some s) : total s.avail = s.known :=
  (run_conserved c ops _ s h (init_conserved c counts hl)).2.1

/-- **belief ledger**: in every reachable state Σ device `balls` + Σ playfield `balls` + balls in flight
(left a source, not yet entered / confirmed / declared lost) = `num_balls_known`. -/
theorem ledger_conservation (c : Cfg) (counts : List Int) (hl : counts.length = c.n) (ops : List Op) (s : St)
    (h : run c (initSt c counts) ops = some s) : total s.balls + s.inflight = s.known :=
  (run_conserved c ops _ s h (init_conserved c counts hl)).2.2

/-- **bounds**: if the initial counts are within capacity then in every reachable state every device satisfies
`0 ≤ balls ≤ counted_balls ≤ capacity` (no count negative or above the number of ball switches). -/
theorem bounds (c : Cfg) (counts : List Int) (hl : counts.length = c.n)
    (h0 : ∀ i, c.isPf i = false → 0 ≤ counts.getD i 0 ∧ counts.getD i 0 ≤ c.capOf i) (ops : List Op) (s : St)
    (h : run c (initSt c counts) ops = some s) :
    ∀ i, c.isPf i = false → 0 ≤ s.b i ∧ s.b i ≤ s.c i ∧ s.c i ≤ c.capOf i := by
  refine run_bounded c ops _ s h (init_conserved c counts hl) ?_
  intro i hi
  have := h0 i hi
  simp only [initSt, St.b, St.c]
  omega

/-- one conservation step: whatever single enabled transition happens, both sums move together with `known` -/
theorem step_conserves (c : Cfg) (s s' : St) (op : Op) (h : step c s op = some s') (hc : Conserved c s) :
    total s'.avail = s'.known ∧ total s'.balls + s'.inflight = s'.known :=
  (step_conserved c s s' op h hc).2

/-- **readiness guard, single-source topologies**: let `c` be a configuration in which no device ejects into itself and
every target has at most one source (`Cfg.singleSource`, a decidable predicate on the `eject_targets` edges).  Then in
*every* state reachable from the initial one by any history of ledger transitions, whenever `ejectStart d t` is enabled
towards a device `t`, the balls counted in `t` plus all balls MPF has fired at `t` and not yet accounted for — including
the one being fired now — fit into `t`: MPF never fires into a full device.  The proof carries the invariant
`heading t = |incoming t| + [source d is between ejectStart and ballLeft]` through all 23 transitions
(`Lemmas/BallLedgerHeading.lean`); with two sources the invariant is false, see `two_sources_double_fire_witness`. -/
theorem no_fire_into_full_single_source (c : Cfg) (counts : List Int) (hss : c.singleSource = true) (ops : List Op)
    (s s' : St) (d t : Nat) (h : run c (initSt c counts) ops = some s) (hpf : c.isPf t = false)
    (hstep : step c s (.ejectStart d t) = some s') :
    s'.c t + s'.heading.getD t 0 ≤ c.capOf t := by
  simp only [step] at hstep
  split at hstep
  · rename_i hg
    simp only [Bool.and_eq_true, decide_eq_true_eq, readyTo, hpf, Bool.false_or, beq_iff_eq, Bool.not_eq_true'] at hg
    have hd : d < c.n := hg.1.1.1.1.1.1.1
    have ht : t < c.n := hg.1.1.1.1.1.1.2
    have he : c.edge d t = true := hg.1.1.1.1.1.2
    have hph : s.ph d = .waitTarget := hg.1.1.1.1.2
    have hinv := run_hinv c ops _ s d t hss he hpf hd ht h (init_hinv c counts d t)
    have heq := hinv.eq
    have hlen := hinv.lh
    have hfire : firing s d t = 0 := by simp [firing, hph]
    cases hstep
    simp only [St.c, getD_bump, hlen, ht, and_true, if_true] at hg heq ⊢
    omega
  · simp at hstep

/-- the hypothesis is not vacuous: the standard machine (trough → plunger → playfield, lock → playfield) is single-source,
the D16 topology is not -/
example : ({ n := 4, pf := [false, false, false, true], cap := [3, 1, 2, 0], maxT := [3, 3, 3, 0],
             edges := [(0, 1), (1, 3), (2, 3)], missing := 3 } : Cfg).singleSource = true := by decide

/-- the registration happens only when the ball has *left* the source: `ejectStart` does not touch `incoming` -/
theorem ejectStart_registers_nothing (c : Cfg) (s s' : St) (d t : Nat) (h : step c s (.ejectStart d t) = some s') :
    s'.inc = s.inc ∧ s'.counted = s.counted := by
  simp only [step] at h
  split at h
  · cases h; exact ⟨rfl, rfl⟩
  · simp at h

/-- trough (0) and lock (2) both feed the capacity-1 plunger (1); playfield = 3 -/
def twoSrc : Cfg :=
  { n := 4, pf := [false, false, false, true], cap := [3, 1, 2, 0], maxT := [3, 3, 3, 0],
    edges := [(0, 1), (2, 1), (1, 3)], missing := 3 }

def doubleFire : List Op :=
  [.plan [2, 1, 3], .plan [0, 1, 3], .waitTarget 2, .waitBall 1, .attempt 2 1 0, .ejectStart 2 1,
   .waitTarget 0, .attempt 0 1 0, .ejectStart 0 1, .ballLeft 2, .ballLeft 0]

/-- **known finding D16 (witness)**: with two sources for one free slot both readiness guards pass before either ball
is registered as incoming (`# TODO: block one spot in target device` in `outgoing_balls_handler.py`): after this
enabled history two balls head for a plunger with room for one. -/
theorem two_sources_double_fire_witness :
    (run twoSrc (initSt twoSrc [1, 0, 1, 0]) doubleFire).map
      (fun s => decide (s.c 1 + s.heading.getD 1 0 > twoSrc.capOf 1) && decide ((s.incOf 1).length = 2)) = some true := by
  decide

/-- the hypotheses are satisfiable: a game start (trough → plunger → playfield) is an enabled history and ends with
the ball on the playfield -/
example : (run twoSrc (initSt twoSrc [2, 0, 0, 0])
    [.plan [0, 1, 3], .waitTarget 0, .waitBall 1, .attempt 0 1 0, .ejectStart 0 1, .ballLeft 0, .enterExpected 1,
     .confirm 0 1, .waitTarget 1, .attempt 1 3 0, .ejectStart 1 3, .ballLeft 1, .confirm 1 3]).map
    (fun s => (s.balls, s.avail, s.inflight, s.known)) = some ([1, 0, 0, 1], [1, 0, 0, 1], 0, 2) := by decide

/-! ### the entrance-switch counter (a device without ball switches: `entrance_switch` + `ball_capacity`) -/

/-- **entrance counter, count = entries − ejects**: whatever sequence of entrance-switch hits (inside or outside the ignore
window), full-time-out expiries, switch openings and own ejects happens to a counter that starts empty, its ball count is
exactly the number of balls it has counted in minus the number it has counted out. -/
theorem entrance_count_is_entries_minus_ejects (cap : Nat) (fullTo : Bool) (node : Nat) (ops : List ECOp) (e : EC)
    (h : ecRun { node := node, cap := cap, fullTo := fullTo } ops = some e) : e.last + e.ejects = e.entries :=
  (ecRun_inv ops _ e h ⟨rfl, Nat.zero_le _, by simp⟩).1

/-- **entrance counter, never above capacity**: in every reachable state `0 ≤ count ≤ ball_capacity` (a hit on a full device
is not counted; the hit that would fill it waits for `entrance_switch_full_timeout` or for the switch opening and still fits). -/
theorem entrance_count_within_capacity (cap : Nat) (fullTo : Bool) (node : Nat) (ops : List ECOp) (e : EC)
    (h : ecRun { node := node, cap := cap, fullTo := fullTo } ops = some e) : e.last ≤ cap := by
  have := (ecRun_inv ops _ e h ⟨rfl, Nat.zero_le _, by simp⟩).2.1
  rw [ecRun_cap ops _ e h] at this
  exact this

/-- **entrance counter, full detection**: a hit that would fill the device (`entrance_switch_full_timeout` configured) is
deferred; when the ball stays on the switch for the full time-out the device is counted full. -/
theorem entrance_full_detection (e : EC) (hl : e.last < e.cap) :
    (ecStep e .full).map (fun e' => (e'.last, e'.pending)) = some (e.cap, false) := by
  simp [ecStep, hl]

/-- **known finding (witness)**: capacity 2 with full time-out; a ball enters, a second one comes to rest on the entrance
switch (deferred), the device ejects a ball, the second ball rolls down and the switch opens before the full time-out: the
deferred hit is dropped as a bounce (by design - a ball and a bounce look the same at the switch), count 0 with one ball in
the device (`entries` 1, `ejects` 1, `dropped` 1). -/
theorem entrance_short_rest_dropped_witness :
    (ecRun { node := 2, cap := 2, fullTo := true } [.hit false, .hit false, .left, .release]).map
      (fun e => (e.last, e.entries, e.ejects, e.dropped, e.pending)) = some (0, 1, 1, 1, false) := by decide

/-- the hypotheses are satisfiable and the counter is not trivial: without full time-out every hit outside the ignore window
counts up to the capacity, a hit on the full device does not -/
example : (ecRun { node := 2, cap := 2, fullTo := false } [.hit false, .hit true, .hit false, .hit false, .left]).map
    (fun e => (e.last, e.entries, e.ejects, e.dropped)) = some (1, 2, 1, 2) := by decide

end MpfVerif.C04
