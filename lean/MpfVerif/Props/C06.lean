import MpfVerif.Lemmas.Game
/-!
# C06 — Game lifecycle: turns, balls and lifecycle events are well-formed

Property theorems only, about `Model/Game.lean` (the coroutine `Game._run` as a resumable state machine).
`run (start0 b m k) ops` is the state after an arbitrary sequence of resumptions and environment requests (end_ball,
end_game, slam tilt, balls_in_play = n, drains, extra balls, player adds, game starts), for arbitrary balls_per_game `b`,
max_players `m`, num_balls_known `k`; requests that are not enabled are skipped.
-/
namespace MpfVerif.C06
open MpfVerif.Game

/-- The lifecycle trace: after ANY op sequence the emitted events start with game_will_start and every event is one the
grammar allows right after its predecessor (`follows`; after game_ended only a new game_will_start) — i.e. the trace is a
prefix of (game_will_start game_starting game_started turn* game_will_end game_ending game_ended)*; and the coroutine's
pc is the last event emitted. -/
theorem trace_grammar (b m k : Nat) (ops : List Op) :
    okFrom none (tr (run (start0 b m k) ops)) = true ∧ pcOk (run (start0 b m k) ops) :=
  ⟨(run_ginv _ ops (start0_inv b m k)).1.chain, (run_ginv _ ops (start0_inv b m k)).1.pc⟩

/-- 0 ≤ balls_in_play ≤ num_balls_known, always (Nat gives the lower bound). -/
theorem bip_bounds (b m k : Nat) (ops : List Op) : (run (start0 b m k) ops).bip ≤ k := by
  have h := run_ginv _ ops (start0_inv b m k)
  have := h.1.bip
  rw [h.2] at this
  exact this

/-- Once an end-of-game request has been accepted (`ending` set), no resumption of the coroutine — from any state —
emits `ball_will_start`, and `ending` stays set. -/
theorem no_ball_after_end_request (st st' : St) (he : st.ending = true) (h : step st .resume = some st') :
    (∃ e, tr st' = tr st ++ [e] ∧ e ≠ .bws) ∧ st'.ending = true := by
  obtain ⟨p, e, _, _, htr, _, _, hend, _, _⟩ := resume_spec st st' h
  exact ⟨⟨e, htr, (hend he).1⟩, (hend he).2⟩

/-- A ball ends only for a reason: `ball_will_end` is emitted only when the end-of-ball event is set, and every
resumption emits exactly one event allowed after the awaited one. -/
theorem ball_ends_only_when_requested (st st' : St) (h : step st .resume = some st') :
    ∃ p e, st.pc = some p ∧ tr st' = tr st ++ [e] ∧ follows p e = true ∧ (e = .bwe → st.endEv = true) := by
  obtain ⟨p, e, hp, _, htr, hf, hb, _, _, _⟩ := resume_spec st st' h
  exact ⟨p, e, hp, htr, hf, hb⟩

/-- the end-of-ball event is set only by end_ball / end_game / slam tilt, or by balls_in_play going from >0 to 0 -/
theorem end_event_sources (st : St) (v : Int) (h : (setBipTo st v).endEv = true) (h0 : st.endEv = false) :
    st.bip > 0 ∧ (setBipTo st v).bip = 0 := by
  simp only [setBipTo, h0, Bool.false_or, Bool.and_eq_true, decide_eq_true_eq] at h
  exact ⟨h.1, by simp only [setBipTo]; exact h.2⟩

/-- After game_ended has completed the game slot is empty and a new game can start (and does start with
game_will_start). -/
theorem ended_clean (st st1 : St) (h : step st .finish = some st1) :
    st.pc = some .ged ∧ st1.pc = none ∧ ∃ st2, step st1 .start = some st2 ∧ tr st2 = tr st1 ++ [.gws] := by
  simp only [step] at h
  split at h
  · rename_i hg
    cases h
    refine ⟨hg, rfl, ?_⟩
    simp [step, tr, emit]
  · cases h

/-- Players rotate 1..n: after player_turn_ended, unless the game ends, the next turn belongs to the next player, or
to player 1 after the last one. -/
theorem player_rotates (st st' : St) (hp : st.pc = some .pted) (h : resume st = some st') (hn : st'.pc = some .ptws) :
    st'.cur = (if st.cur < st.players then st.cur + 1 else 1) := by
  unfold resume at h
  split at h
  · cases h
  simp only [hp] at h
  split at h
  · simp only [loopCheck, if_true, Option.some.injEq] at h
    subst h
    simp [emit] at hn
  · simp only [loopCheck, Option.some.injEq] at h
    subst h
    split
    · split <;> simp_all [emit]
    · split <;> simp_all [emit] <;> omega

/-- Ball numbers: for balls_per_game ≥ 1, after ANY op sequence no player's ball number exceeds balls_per_game; before the
first turn nobody has a ball number; during the turns every player up to the current one is on the current player's ball
and every later player on the ball before it (the round structure: each player gets one turn per ball number, in order). -/
theorem ball_number_bounded (b m k : Nat) (hb : 1 ≤ b) (ops : List Op) :
    let s := run (start0 b m k) ops
    (∀ p, s.balls p ≤ b) ∧
    (inTurn s.pc → 1 ≤ s.cur ∧ s.cur ≤ s.players ∧ 1 ≤ s.balls s.cur ∧
      (∀ p, 1 ≤ p → p ≤ s.cur → s.balls p = s.balls s.cur) ∧
      (∀ p, s.cur < p → p ≤ s.players → s.balls p = s.balls s.cur - 1)) := by
  intro s
  have hI := run_binv _ ops (start0_binv b m k hb)
  have hk : s.bpg = b := (run_bpg (start0 b m k) ops)
  exact ⟨fun p => hk ▸ hI.bound p, hI.turnB⟩

/-- One ball per turn plus one per extra ball awarded: in every reachable state, for every player, the number of balls
started in this game plus the extra balls still pending equals the number of turns whose first ball started plus the extra
balls awarded — every ball after the first of a turn consumed exactly one awarded extra ball, and nothing else starts a
ball (the counters are ghost fields of the model, updated only where a ball starts / an extra ball is awarded). -/
theorem one_ball_per_turn_plus_extra (b m k : Nat) (ops : List Op) (p : Nat) :
    let s := run (start0 b m k) ops
    s.started p + s.extra p = s.firstBalls p + s.awarded p :=
  run_acc _ ops (fun _ => rfl) p

/-- ... and a turn does start its first ball: the resumption after player_turn_started emits ball_will_start unless the
end of the game has been requested, and the one after ball_ended starts another ball exactly when an extra ball is
pending (and neither slam tilt nor end of game), consuming it. -/
theorem turn_starts_its_balls (st st' : St) (h : resume st = some st') :
    (st.pc = some .ptsd → (st'.pc = some .bws ↔ st.ending = false)) ∧
    (st.pc = some .bed → (st'.pc = some .bws ↔ (st.extra st.cur > 0 ∧ st.slam = false ∧ st.ending = false)) ∧
      (st'.pc = some .bws → st'.extra st.cur = st.extra st.cur - 1)) := by
  unfold resume at h
  split at h
  · cases h
  constructor
  · intro hp
    by_cases he : st.ending = true <;> by_cases hs : st.slam = true <;> by_cases hx : st.extra st.cur > 0 <;>
      simp [hp, he, hs, hx, extraCheck, startBall] at h <;> subst h <;> simp [emit, he]
  · intro hp
    by_cases he : st.ending = true <;> by_cases hs : st.slam = true <;> by_cases hx : st.extra st.cur > 0 <;>
      simp [hp, he, hs, hx, extraCheck, startBall] at h <;> subst h <;> simp [emit, he, hs, hx, setAt] <;> omega

/-! ### non-vacuity -/

/-- one player, one ball per game: the whole game, with a drain ending the ball -/
example : (tr (run (start0 1 4 3) [.start, .resume, .startCheck, .addPlayer, .resume, .resume, .resume, .resume, .resume, .resume, .resume,
      .drain 1, .resume, .resume, .resume, .resume, .resume, .resume, .resume, .resume, .resume, .finish])).length = 18 := by
  decide

/-- end_game() requested inside player_turn_starting (D19) and with an extra ball pending (D20): no ball starts -/
example : (let s := run (start0 3 4 3) [.start, .resume, .startCheck, .addPlayer, .resume, .resume, .resume, .extraBall, .endGame, .resume,
      .resume, .resume, .resume, .resume, .resume, .resume]
    (tr s).contains .bws) = false := by decide

/-- end_game() while the game is starting: it ends without game_started and without waiting for a player -/
example : tr (run (start0 3 4 3) [.start, .endGame, .resume, .resume, .resume, .resume]) = [.gws, .gsg, .gwe, .geg, .ged] := by
  decide

/-- two players, the second joining during ball 1; three balls each, never a fourth -/
example : (let s := run (start0 1 4 3) [.start, .resume, .startCheck, .addPlayer, .resume, .resume, .addPlayer]
    (s.players, s.cur, s.balls 1, s.balls 2)) = (2, 1, 1, 0) := by decide

end MpfVerif.C06
