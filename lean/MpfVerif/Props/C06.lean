import MpfVerif.Lemmas.Game
/-!
# C06 — Game lifecycle: turns, balls and lifecycle events are well-formed

Property theorems only, about `Model/Game.lean` (the coroutine `Game._run` as a resumable state machine).
`run (start0 b m k) ops` is the state after an arbitrary sequence of resumptions and environment requests (end_ball,
end_game, slam tilt, balls_in_play = n, drains, extra balls, player adds, game starts), for arbitrary balls_per_game `b`,
max_players `m`, num_balls_known `k`; requests that are not enabled are skipped.
-/
namespace MpfVerif.C06
open MpfVerif.Game

/-- The lifecycle trace: after ANY op sequence the emitted events start with game_will_start and every event is one the
grammar allows right after its predecessor (`follows`; after game_ended only a new game_will_start) — i.e. the trace is a
prefix of (game_will_start game_starting game_started turn* game_will_end game_ending game_ended)*; and the coroutine's
pc is the last event emitted. -/
theorem trace_grammar (b m k : Nat) (ops : List Op) :
    okFrom none (tr (run (start0 b m k) ops)) = true ∧ pcOk (run (start0 b m k) ops) :=
  ⟨(run_ginv _ ops (start0_inv b m k)).chain, (run_ginv _ ops (start0_inv b m k)).pc⟩

/-- 0 ≤ balls_in_play ≤ num_balls_known, always (Nat gives the lower bound) — with the number of balls known as it is at
that moment (it grows when a ball MPF did not know about is found; op `setKnown`). -/
theorem bip_bounds (b m k : Nat) (ops : List Op) :
    (run (start0 b m k) ops).bip ≤ (run (start0 b m k) ops).known :=
  (run_ginv _ ops (start0_inv b m k)).bip

/-- Once an end-of-game request has been accepted (`ending` set), no resumption of the coroutine — from any state —
emits `ball_will_start`, and `ending` stays set. -/
theorem no_ball_after_end_request (st st' : St) (he : st.ending = true) (h : step st .resume = some st') :
    (∃ e, tr st' = tr st ++ [e] ∧ e ≠ .bws) ∧ st'.ending = true := by
  obtain ⟨p, e, _, _, htr, _, _, hend, _, _⟩ := resume_spec st st' h
  exact ⟨⟨e, htr, (hend he).1⟩, (hend he).2⟩

/-- A ball ends only for a reason: `ball_will_end` is emitted only when the end-of-ball event is set, and every
resumption emits exactly one event allowed after the awaited one. -/
theorem ball_ends_only_when_requested (st st' : St) (h : step st .resume = some st') :
    ∃ p e, st.pc = some p ∧ tr st' = tr st ++ [e] ∧ follows p e = true ∧ (e = .bwe → st.endEv = true) := by
  obtain ⟨p, e, hp, _, htr, hf, hb, _, _, _⟩ := resume_spec st st' h
  exact ⟨p, e, hp, htr, hf, hb⟩

/-- the end-of-ball event is set only by end_ball / end_game / slam tilt, or by balls_in_play going from >0 to 0 -/
theorem end_event_sources (st : St) (v : Int) (h : (setBipTo st v).endEv = true) (h0 : st.endEv = false) :
    st.bip > 0 ∧ (setBipTo st v).bip = 0 := by
  simp only [setBipTo, h0, Bool.false_or, Bool.and_eq_true, decide_eq_true_eq] at h
  exact ⟨h.1, by simp only [setBipTo]; exact h.2⟩

/-- After game_ended has completed the game slot is empty and a new game can start (and does start with
game_will_start). -/
theorem ended_clean (st st1 : St) (h : step st .finish = some st1) :
    st.pc = some .ged ∧ st1.pc = none ∧ ∃ st2, step st1 .start = some st2 ∧ tr st2 = tr st1 ++ [.gws] := by
  simp only [step] at h
  split at h
  · rename_i hg
    cases h
    refine ⟨hg, rfl, ?_⟩
    simp [step, tr, emit]
  · cases h

/-- Players rotate 1..n: after player_turn_ended, unless the game ends, the next turn belongs to the next player, or
to player 1 after the last one. -/
theorem player_rotates (st st' : St) (hp : st.pc = some .pted) (h : resume st = some st') (hn : st'.pc = some .ptws) :
    st'.cur = (if st.cur < st.players then st.cur + 1 else 1) := by
  unfold resume at h
  split at h
  · cases h
  simp only [hp] at h
  split at h
  · simp only [loopCheck, if_true, Option.some.injEq] at h
    subst h
    simp [emit] at hn
  · simp only [loopCheck, Option.some.injEq] at h
    subst h
    split
    · split <;> simp_all [emit]
    · split <;> simp_all [emit] <;> omega

/-- Ball numbers: for balls_per_game ≥ 1, after ANY op sequence no player's ball number exceeds balls_per_game — the value
the template had when this game began (op `config`, only enabled between games: a change of the template during a game has
no effect on it); before the
first turn nobody has a ball number; during the turns every player up to the current one is on the current player's ball
and every later player on the ball before it (the round structure: each player gets one turn per ball number, in order). -/
theorem ball_number_bounded (b m k : Nat) (hb : 1 ≤ b) (ops : List Op) :
    let s := run (start0 b m k) ops
    (∀ p, s.balls p ≤ s.bpg) ∧
    (inTurn s.pc → 1 ≤ s.cur ∧ s.cur ≤ s.players ∧ 1 ≤ s.balls s.cur ∧
      (∀ p, 1 ≤ p → p ≤ s.cur → s.balls p = s.balls s.cur) ∧
      (∀ p, s.cur < p → p ≤ s.players → s.balls p = s.balls s.cur - 1)) := by
  intro s
  have hI := run_binv _ ops (start0_binv b m k hb)
  exact ⟨hI.bound, hI.turnB⟩

/-- balls_per_game / max_players only change between games: every step of a running game keeps them. -/
theorem config_fixed_during_game (st st' : St) (op : Op) (hp : st.pc.isSome) (h : step st op = some st') (hs : op ≠ .start) :
    st'.bpg = st.bpg ∧ st'.maxPlayers = st.maxPlayers :=
  step_config st st' op hp hs h

/-- One ball per turn plus one per extra ball awarded: in every reachable state, for every player, the number of balls
started in this game plus the extra balls still pending equals the number of turns whose first ball started plus the extra
balls awarded — every ball after the first of a turn consumed exactly one awarded extra ball, and nothing else starts a
ball (the counters are ghost fields of the model, updated only where a ball starts / an extra ball is awarded). -/
theorem one_ball_per_turn_plus_extra (b m k : Nat) (ops : List Op) (p : Nat) :
    let s := run (start0 b m k) ops
    s.started p + s.extra p = s.firstBalls p + s.awarded p :=
  run_acc _ ops (fun _ => rfl) p

/-- ... and a turn does start its first ball: the resumption after player_turn_started emits ball_will_start unless the
end of the game has been requested, and the one after ball_ended starts another ball exactly when an extra ball is
pending (and neither slam tilt nor end of game), consuming it. -/
theorem turn_starts_its_balls (st st' : St) (h : resume st = some st') :
    (st.pc = some .ptsd → (st'.pc = some .bws ↔ st.ending = false)) ∧
    (st.pc = some .bed → (st'.pc = some .bws ↔ (st.extra st.cur > 0 ∧ st.slam = false ∧ st.ending = false)) ∧
      (st'.pc = some .bws → st'.extra st.cur = st.extra st.cur - 1)) := by
  unfold resume at h
  split at h
  · cases h
  constructor
  · intro hp
    by_cases he : st.ending = true <;> by_cases hs : st.slam = true <;> by_cases hx : st.extra st.cur > 0 <;>
      simp [hp, he, hs, hx, extraCheck, startBall] at h <;> subst h <;> simp [emit, he]
  · intro hp
    by_cases he : st.ending = true <;> by_cases hs : st.slam = true <;> by_cases hx : st.extra st.cur > 0 <;>
      simp [hp, he, hs, hx, extraCheck, startBall] at h <;> subst h <;> simp [emit, he, hs, hx, setAt] <;> omega

/-! ### the real tilt mode, vetoed adds, forced stops, over-reported drains -/

/-- Nothing the tilt mode does (tilt, slam tilt, warning, warning reset, tilt clear) touches the lifecycle trace, the awaited
event, balls_in_play, the roster or the ball numbers: it acts on the game only through `tilted`, `slam_tilted` and the
end-of-ball event. -/
theorem tilt_mode_leaves_lifecycle_alone (st st' : St) (op : Op)
    (hop : op = .tilt ∨ op = .slamTilt ∨ op = .tiltWarn ∨ op = .warnReset ∨ op = .tiltClear)
    (h : step st op = some st') :
    tr st' = tr st ∧ st'.pc = st.pc ∧ st'.bip = st.bip ∧ st'.players = st.players ∧ st'.cur = st.cur ∧
      st'.balls = st.balls ∧ st'.ending = st.ending := by
  have f := tilt_steps_frame st st' op hop h
  exact ⟨by simp [tr, f.log], f.pc, f.bip, f.players, f.cur, f.balls, f.ending⟩

/-- A tilt requests the end of the ball exactly when the game is neither tilted already nor ending; otherwise it changes
nothing at all. -/
theorem tilt_requests_ball_end (st st' : St) (h : step st .tilt = some st') :
    (st.tilted = false ∧ st.ending = false → st'.tilted = true ∧ st'.endEv = true) ∧
    (st.tilted = true ∨ st.ending = true → st' = st) := by
  simp only [step] at h
  split at h
  · cases h
  · cases h
    constructor
    · intro ⟨a, b⟩; simp [tiltNow, a, b]
    · intro hx; rcases hx with a | a <;> simp [tiltNow, a]

/-- The warnings_to_tilt-th warning of the player who is up tilts; earlier ones only count; without a player, while ending
or while tilted a warning is ignored. -/
theorem warning_threshold (st st' : St) (h : step st .tiltWarn = some st')
    (hc : st.cur ≠ 0) (he : st.ending = false) (ht : st.tilted = false) :
    st'.warn st.cur = st.warn st.cur + 1 ∧
    (st.warn st.cur + 1 ≥ st.warnTo → st'.tilted = true ∧ st'.endEv = true) ∧
    (st.warn st.cur + 1 < st.warnTo → st'.tilted = false ∧ st'.endEv = st.endEv) := by
  simp only [step] at h
  split at h
  · cases h
  · cases h
    by_cases hw : st.warn st.cur + 1 ≥ st.warnTo
    · simp [MpfVerif.Game.tiltWarn, hc, he, ht, hw, tiltNow, setAt]
    · have hw' : st.warn st.cur + 1 < st.warnTo := by omega
      simp [MpfVerif.Game.tiltWarn, hc, he, ht, hw, setAt]

/-- A slam tilt is final: the flag survives every step of the game, and the turn that is running is the last one — after
player_turn_ended the game ends instead of rotating (whatever the ball numbers and the number of players). -/
theorem slam_tilt_ends_game (st st' : St) (hs : st.slam = true) :
    (∀ op, op ≠ .start → step st op = some st' → st'.slam = true) ∧
    (st.pc = some .pted → resume st = some st' → st'.pc = some .gwe ∧ st'.ending = true) := by
  constructor
  · intro op hop h
    exact step_slam st st' op hop hs h
  · intro hp h
    unfold MpfVerif.Game.resume at h
    split at h
    · cases h
    simp [hp, hs, loopCheck] at h
    subst h
    simp [emit]

/-- A player-add request that a handler of player_add_request vetoes leaves the roster, the current player and the trace as
they were, and the coroutine can go on (the pending add is gone). -/
theorem vetoed_add_changes_nothing (st s1 s2 : St) (h1 : step st .addAccepted = some s1) (h2 : step s1 .addVetoed = some s2) :
    s2.players = st.players ∧ s2.cur = st.cur ∧ s2.pendAdds = st.pendAdds ∧ tr s2 = tr st ∧ s2.pc = st.pc := by
  simp only [step, stepAdd] at h1 h2
  split at h1
  · cases h1
  · cases h1
    split at h2
    · cases h2
    · cases h2
      exact ⟨rfl, rfl, by simp, rfl, rfl⟩

/-- end_game() while the game waits for its first player (the add request was vetoed): the game ends without having
started, instead of waiting for ever for a player whom request_player_add refuses while ending. -/
theorem end_request_while_waiting_for_first_player (st : St) (hp : st.pc = some .gsg) (hc : st.checked = true)
    (h0 : st.players = 0) (hq : st.pendAdds = 0) (he : st.ending = true) :
    ∃ st', step st .resume = some st' ∧ st'.pc = some .gwe := by
  refine ⟨emit st .gwe, ?_, rfl⟩
  simp [step, MpfVerif.Game.resume, hp, hc, h0, hq, he]

/-- A game whose mode is stopped from outside leaves the game slot empty and a new game can start at once. -/
theorem aborted_game_restartable (st st1 : St) (h : step st .abort = some st1) :
    st1.pc = none ∧ ∃ st2, step st1 .start = some st2 ∧ tr st2 = tr st1 ++ [.gws] := by
  simp only [step] at h
  split at h
  · cases h
  · cases h
    refine ⟨rfl, ?_⟩
    simp [step, tr, emit]

/-- A drain that reports at least as many balls as are in play (also MORE: a ball MPF did not count as in play drains
together with the last one) takes balls_in_play to exactly zero, sets the end-of-ball event, and the ball ends. -/
theorem overdrain_ends_ball (st : St) (n : Nat) (hp : st.pc = some .bsd) (hb : st.bip > 0) (hn : n ≥ st.bip)
    (hq : st.pendAdds = 0) :
    ∃ s1 s2, step st (.drain n) = some s1 ∧ s1.bip = 0 ∧ s1.endEv = true ∧
      step s1 .resume = some s2 ∧ s2.pc = some .bwe := by
  have hn0 : n ≠ 0 := by omega
  have hle : ¬ ((st.bip : Int) - (n : Int) > (st.known : Int)) := by omega
  have hz : (st.bip : Int) - (n : Int) < 0 ∨ ((st.bip : Int) - (n : Int)).toNat = 0 := by omega
  have hbip : (setBipTo st ((st.bip : Int) - n)).bip = 0 := by
    simp only [setBipTo, hle, if_false]
    rcases hz with hz | hz
    · simp [hz]
    · split <;> simp [hz]
  have hev : (setBipTo st ((st.bip : Int) - n)).endEv = true := by
    have : (setBipTo st ((st.bip : Int) - n)).endEv = (st.endEv || (decide (st.bip > 0) && decide ((setBipTo st ((st.bip : Int) - n)).bip = 0))) := rfl
    rw [this, hbip]
    simp [hb]
  refine ⟨setBipTo st ((st.bip : Int) - n), emit { setBipTo st ((st.bip : Int) - n) with bip := 0 } .bwe, ?_, hbip, hev, ?_, rfl⟩
  · simp [step, hp, hn0]
  · simp only [step, MpfVerif.Game.resume]
    have hpq : (setBipTo st ((st.bip : Int) - n)).pendAdds = 0 := hq
    have hpc : (setBipTo st ((st.bip : Int) - n)).pc = some .bsd := hp
    simp [hpq, hpc, hp, hev]

/-- Observation (not a violation of C06): a tilt that arrives while the ball is already ending sets `tilted`, but its
end-of-ball request is wiped when the next ball starts — the next ball (here player 1's second ball) is in play with the
game still marked tilted and no end requested. -/
theorem tilt_while_ball_ending_carries_over_witness :
    (fun s : St => (s.pc, s.tilted, s.endEv, s.bip, s.balls 1))
      (run (start0 2 4 3) [.start, .resume, .startCheck, .addPlayer, .resume, .resume, .resume, .resume, .resume, .resume,
        .resume, .drain 1, .resume, .resume, .tilt, .resume, .resume, .resume, .resume, .resume, .resume, .resume, .resume,
        .resume, .resume]) = (some .bsd, true, false, 1, 2) := by decide

/-! ### non-vacuity -/

/-- two warnings of three only count, the third tilts the ball -/
example : (let s := run { start0 1 4 3 with warnTo := 3 } [.start, .resume, .startCheck, .addPlayer, .resume, .resume, .resume, .resume,
      .resume, .resume, .resume, .tiltWarn, .tiltWarn]
    (s.tilted, s.warn 1, s.endEv)) = (false, 2, false) := by decide
example : (let s := run { start0 1 4 3 with warnTo := 3 } [.start, .resume, .startCheck, .addPlayer, .resume, .resume, .resume, .resume,
      .resume, .resume, .resume, .tiltWarn, .tiltWarn, .tiltWarn]
    (s.tilted, s.warn 1, s.endEv)) = (true, 3, true) := by decide

/-- a vetoed first player, then end_game: game_will_start game_starting game_will_end game_ending game_ended -/
example : tr (run (start0 3 4 3) [.start, .resume, .startCheck, .addAccepted, .addVetoed, .endGame, .resume, .resume, .resume]) =
    [.gws, .gsg, .gwe, .geg, .ged] := by decide

/-- restart: the mode is stopped during ball 1, a new game with a different balls_per_game starts -/
example : (let s := run (start0 3 4 3) [.start, .resume, .startCheck, .addPlayer, .resume, .resume, .resume, .resume, .resume, .resume,
      .resume, .abort, .config 1 2, .start, .resume]
    ((tr s).drop 9, s.bpg)) = ([.abt, .gws, .gsg], 1) := by decide

/-- one ball in play, two balls drain at once: the ball ends -/
example : (let s := run (start0 1 4 3) [.start, .resume, .startCheck, .addPlayer, .resume, .resume, .resume, .resume, .resume, .resume,
      .resume, .drain 2, .resume]
    (s.pc, s.bip)) = (some .bwe, 0) := by decide


/-- one player, one ball per game: the whole game, with a drain ending the ball -/
example : (tr (run (start0 1 4 3) [.start, .resume, .startCheck, .addPlayer, .resume, .resume, .resume, .resume, .resume, .resume, .resume,
      .drain 1, .resume, .resume, .resume, .resume, .resume, .resume, .resume, .resume, .resume, .finish])).length = 18 := by
  decide

/-- end_game() requested inside player_turn_starting (D19) and with an extra ball pending (D20): no ball starts -/
example : (let s := run (start0 3 4 3) [.start, .resume, .startCheck, .addPlayer, .resume, .resume, .resume, .extraBall, .endGame, .resume,
      .resume, .resume, .resume, .resume, .resume, .resume]
    (tr s).contains .bws) = false := by decide

/-- end_game() while the game is starting: it ends without game_started and without waiting for a player -/
example : tr (run (start0 3 4 3) [.start, .endGame, .resume, .resume, .resume, .resume]) = [.gws, .gsg, .gwe, .geg, .ged] := by
  decide

/-- two players, the second joining during ball 1; three balls each, never a fourth -/
example : (let s := run (start0 1 4 3) [.start, .resume, .startCheck, .addPlayer, .resume, .resume, .addPlayer]
    (s.players, s.cur, s.balls 1, s.balls 2)) = (2, 1, 1, 0) := by decide

end MpfVerif.C06
