import MpfVerif.Lemmas.Game
/-!
# C06 — Game lifecycle: turns, balls and lifecycle events are well-formed

Property theorems only, about `Model/Game.lean` (the coroutine `Game._run` as a resumable state machine).
`run (start0 b m k) ops` is the state after an arbitrary sequence of resumptions and environment requests (end_ball,
end_game, slam tilt, balls_in_play = n, drains, extra balls, player adds, game starts), for arbitrary balls_per_game `b`,
max_players `m`, num_balls_known `k`; requests that are not enabled are skipped.
-/
namespace MpfVerif.C06
open MpfVerif.Game

/-- The lifecycle trace: after ANY op sequence the emitted events start with game_will_start and every event is one the
grammar allows right after its predecessor (`follows`; after game_ended only a new game_will_start) — i.e. the trace is a
prefix of (game_will_start game_starting game_started turn* game_will_end game_ending game_ended)*; and the coroutine's
pc is the last event emitted. -/
theorem trace_grammar (b m k : Nat) (ops : List Op) :
    okFrom none (tr (run (start0 b m k) ops)) = true ∧ pcOk (run (start0 b m k) ops) :=
  ⟨(run_ginv _ ops (start0_inv b m k)).1.chain, (run_ginv _ ops (start0_inv b m k)).1.pc⟩

/-- 0 ≤ balls_in_play ≤ num_balls_known, always (Nat gives the lower bound). -/
theorem bip_bounds (b m k : Nat) (ops : List Op) : (run (start0 b m k) ops).bip ≤ k := by
  have h := run_ginv _ ops (start0_inv b m k)
  have := h.1.bip
  rw [h.2] at this
  exact this

/-- Once an end-of-game request has been accepted (`ending` set), no resumption of the coroutine — from any state —
emits `ball_will_start`, and `ending` stays set. -/
theorem no_ball_after_end_request (st st' : St) (he : st.ending = true) (h : step st .resume = some st') :
    (∃ e, tr st' = tr st ++ [e] ∧ e ≠ .bws) ∧ st'.ending = true := by
  obtain ⟨p, e, _, _, htr, _, _, hend, _, _⟩ := resume_spec st st' h
  exact ⟨⟨e, htr, (hend he).1⟩, (hend he).2⟩

/-- A ball ends only for a reason: `ball_will_end` is emitted only when the end-of-ball event is set, and every
resumption emits exactly one event allowed after the awaited one. -/
theorem ball_ends_only_when_requested (st st' : St) (h : step st .resume = some st') :
    ∃ p e, st.pc = some p ∧ tr st' = tr st ++ [e] ∧ follows p e = true ∧ (e = .bwe → st.endEv = true) := by
  obtain ⟨p, e, hp, _, htr, hf, hb, _, _, _⟩ := resume_spec st st' h
  exact ⟨p, e, hp, htr, hf, hb⟩

/-- the end-of-ball event is set only by end_ball / end_game / slam tilt, or by balls_in_play going from >0 to 0 -/
theorem end_event_sources (st : St) (v : Int) (h : (setBipTo st v).endEv = true) (h0 : st.endEv = false) :
    st.bip > 0 ∧ (setBipTo st v).bip = 0 := by
  simp only [setBipTo, h0, Bool.false_or, Bool.and_eq_true, decide_eq_true_eq] at h
  exact ⟨h.1, by simp only [setBipTo]; exact h.2⟩

/-- After game_ended has completed the game slot is empty and a new game can start (and does start with
game_will_start). -/
theorem ended_clean (st st1 : St) (h : step st .finish = some st1) :
    st.pc = some .ged ∧ st1.pc = none ∧ ∃ st2, step st1 .start = some st2 ∧ tr st2 = tr st1 ++ [.gws] := by
  simp only [step] at h
  split at h
  · rename_i hg
    cases h
    refine ⟨hg, rfl, ?_⟩
    simp [step, tr, emit]
  · cases h

/-- Players rotate 1..n: after player_turn_ended, unless the game ends, the next turn belongs to the next player, or
to player 1 after the last one. -/
theorem player_rotates (st st' : St) (hp : st.pc = some .pted) (h : resume st = some st') (hn : st'.pc = some .ptws) :
    st'.cur = (if st.cur < st.players then st.cur + 1 else 1) := by
  unfold resume at h
  simp only [hp] at h
  split at h
  · simp only [loopCheck, if_true, Option.some.injEq] at h
    subst h
    simp [emit] at hn
  · simp only [loopCheck, Option.some.injEq] at h
    subst h
    split
    · split <;> simp_all [emit]
    · split <;> simp_all [emit] <;> omega

/-! ### non-vacuity -/

/-- one player, one ball per game: the whole game, with a drain ending the ball -/
example : (tr (run (start0 1 4 3) [.start, .resume, .resume, .resume, .resume, .resume, .resume, .resume, .resume,
      .drain 1, .resume, .resume, .resume, .resume, .resume, .resume, .resume, .resume, .resume, .finish])).length = 18 := by
  decide

/-- end_game() requested inside player_turn_starting (D19) and with an extra ball pending (D20): no ball starts -/
example : (let s := run (start0 3 4 3) [.start, .resume, .resume, .resume, .resume, .extraBall, .endGame, .resume,
      .resume, .resume, .resume, .resume, .resume, .resume]
    (tr s).contains .bws) = false := by decide

end MpfVerif.C06
