import MpfVerif.Lemmas.Writer
import MpfVerif.Model.MachineVars
/-!
# C15 — Persistent data is durable, never torn, survives write failures

Property theorems only (model: `Model/Writer.lean`, invariants: `Lemmas/Writer.lean`).
-/
namespace MpfVerif.C15
open MpfVerif.Writer

/-- Never torn: after *every* interleaving of `save_all` calls, shutdown, writer-thread steps, injected I/O errors and
crashes (at any point, including between the temp-file write and the rename), the file content is the start-up content
or one of the values that were handed to `save_all` — never a partial or mixed one. -/
theorem disk_never_torn (ops : List Op) : (run {} ops).disk = 0 ∨ (run {} ops).disk ∈ savesOf ops := by
  have h := safe_run ops {} ⟨Or.inl rfl, Or.inl rfl, Or.inl rfl, by intro v hv; cases hv⟩
  rcases h.1 with h0 | hm
  · exact Or.inl h0
  · rw [saved_run] at hm
    rcases hm with hm | hm
    · cases hm
    · exact Or.inr hm

/-- non-vacuity: a crash between the temp-file write and the rename leaves the old value; a failed write leaves the old
value; a completed cycle leaves the new one -/
example : (run {} [.save 7, .step, .step, .step, .step, .step, .step, .crash]).disk = 0 := by decide
example : (run {} [.save 7, .step, .step, .step, .step, .step, .fail, .step, .save 8]).disk = 0 := by decide
example : (run {} [.save 7, .step, .step, .step, .step, .step, .step, .step]).disk = 7 := by decide

/-- Flush on shutdown, safety half: in every run without injected faults, whenever the writer thread has exited and the
dirty flag is clear, the file holds exactly the last saved value (D9: the final flush really writes). -/
theorem flush_on_shutdown (ops : List Op) (hf : ∀ o ∈ ops, isFault o = false)
    (hdone : (run {} ops).pc = .done) (hclean : (run {} ops).dirty = false) :
    (run {} ops).disk = (run {} ops).data := by
  have h := good_run ops {} (by simp [Good]) hf
  unfold Good at h
  rw [hdone] at h
  exact h.2 hclean

/-- Flush on shutdown, progress half: from any state reached without faults before shutdown was requested, once
shutdown is requested and no further `save_all` arrives, the thread terminates within 12 of its own steps and the file
then equals the last saved value — wherever the thread was (sleeping, waiting, between clear and copy, inside a save). -/
theorem flush_on_shutdown_terminates (ops : List Op) (hf : ∀ o ∈ ops, isFault o = false)
    (hs : (run {} ops).stop = false) :
    let s := run (run {} ops) (.shutdown :: List.replicate 12 .step)
    s.pc = .done ∧ s.disk = (run {} ops).data ∧ s.dirty = false := by
  have h := good_run ops {} (by simp [Good]) hf
  have h2 := (sane_run ops {} (by simp [Sane]) (by
    intro o ho hc; have := hf o ho; rw [hc] at this; simp [isFault] at this)).2
  revert h h2 hs
  generalize run {} ops = s
  intro hs h h2
  obtain ⟨data, dirty, stop, busy, disk, tmp, loc, pc, saved⟩ := s
  unfold Good at h
  simp only at hs
  subst hs
  cases pc <;> cases dirty <;> simp only at h h2 <;>
    simp_all [run, step, threadStep, List.replicate]

/-- non-vacuity (the D9 history): saves 1, 2, 3 around a running writer, then shutdown: 3 is on disk -/
example : (run {} ([.save 1, .step, .step, .step, .step, .save 2, .step, .step, .save 3] ++
    .shutdown :: List.replicate 12 .step)).disk = 3 := by decide

/-- The busy flag is released (D8): in every crash-free run — with any number of failing writes and renames —
`FileManager.is_busy` is clear whenever the thread is not inside `FileManager.save`. -/
theorem busy_released_after_failure (ops : List Op) (hc : ∀ o ∈ ops, o ≠ .crash)
    (hp : (run {} ops).pc ≠ .wr ∧ (run {} ops).pc ≠ .ren ∧ (run {} ops).pc ≠ .fwr ∧ (run {} ops).pc ≠ .fren ∧
          (run {} ops).pc ≠ .dead) :
    (run {} ops).busy = false := by
  have h := (sane_run ops {} (by simp [Sane]) hc).1
  revert h hp
  generalize run {} ops = s
  intro hp h
  cases hpc : s.pc <;> simp_all

/-- A failure does not wedge the writer: after any crash-free history — including failed temp-file writes and failed
renames — and before shutdown, a value handed to `save_all` is on disk after at most 10 further thread steps
(one writer cycle), wherever the thread was. -/
theorem failure_does_not_wedge (ops : List Op) (hc : ∀ o ∈ ops, o ≠ .crash) (hs : (run {} ops).stop = false) (d : Nat) :
    (run (run {} ops) (.save d :: List.replicate 10 .step)).disk = d := by
  have h := sane_run ops {} (by simp [Sane]) hc
  revert h hs
  generalize run {} ops = s
  intro hs h
  obtain ⟨data, dirty, stop, busy, disk, tmp, loc, pc, saved⟩ := s
  unfold Sane at h
  simp only at hs
  subst hs
  cases pc <;> simp only at h <;> simp_all [run, step, threadStep, List.replicate]

/-- non-vacuity: a failed write followed by a later save -/
example : (run {} ([.save 7, .step, .step, .step, .step, .step, .fail] ++ .save 8 :: List.replicate 10 .step)).disk = 8 := by
  decide

/-- Persistent variables reload: the (name, value) pairs restored at the next boot at time `t` from what
`_write_machine_vars_to_disk` wrote are exactly the variables that were marked persistent, with the value they had, whose
expiry time is unset (or 0) or not before `t` — nothing else, and nothing altered. -/
theorem vars_reload (vs : List MachineVars.MV) (t n : Nat) (val : Option Int) :
    (n, val) ∈ MachineVars.reload (MachineVars.snapshot vs) t ↔
      ∃ v ∈ vs, v.name = n ∧ v.value = val ∧ v.persist = true ∧ MachineVars.expired v.timeout t = false := by
  unfold MachineVars.reload MachineVars.snapshot
  simp only [List.mem_filterMap]
  constructor
  · rintro ⟨e, ⟨v, hv, hve⟩, he⟩
    by_cases hp : v.persist = true
    · simp only [hp, if_true, Option.some.injEq] at hve
      subst hve
      by_cases hx : MachineVars.expired v.timeout t = true
      · simp [hx] at he
      · simp only [hx, Bool.false_eq_true, if_false, Option.some.injEq, Prod.mk.injEq] at he
        exact ⟨v, hv, he.1, he.2, hp, by simpa using hx⟩
    · simp [hp] at hve
  · rintro ⟨v, hv, rfl, rfl, hp, hx⟩
    exact ⟨⟨v.name, v.value, v.timeout⟩, ⟨v, hv, by simp [hp]⟩, by simp [hx]⟩

/-- non-vacuity: a persisted credit-like variable with a one-hour expiry set at t=100 reloads at t=3700 and not at 3701;
a non-persisted one never does -/
example : MachineVars.reload (MachineVars.setVar (MachineVars.setVar
      { vars := MachineVars.configure [] 100 1 true 3600 } 100 1 (some 5) false) 100 2 (some 9) false).file 3700
    = [(1, some 5)] := by decide
example : MachineVars.reload (MachineVars.setVar { vars := MachineVars.configure [] 100 1 true 3600 } 100 1 (some 5) false).file 3701
    = [] := by decide

end MpfVerif.C15
