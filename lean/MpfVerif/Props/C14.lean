import MpfVerif.Lemmas.Framing
import MpfVerif.Lemmas.Framing2
import MpfVerif.Lemmas.Framing3
/-!
# C14 — Serial links: framing, integrity and command flow control

Property theorems only (helper lemmas: `Lemmas/Framing.lean`, models: `Model/Framing.lean`, CRC table: `Gen/Crc8.lean`).
-/
namespace MpfVerif.C14
open MpfVerif.Framing

/-- `feed (a ++ b) = feed (feed a) b` on state and outputs, for every byte-at-a-time decoder (FAST, PKONE, OPP automaton). -/
theorem feed_append {σ α : Type} (step : σ → Nat → σ × List α) (s : σ) (a b : Bytes) :
    feed step s (a ++ b)
      = ((feed step (feed step s a).1 b).1, (feed step s a).2 ++ (feed step (feed step s a).1 b).2) :=
  Framing.feed_append step s a b

/-- FAST (`\r`-delimited): frames **and** carried buffer depend only on the bytes, not on how they were split into reads. -/
theorem fast_chunking_irrelevant (buf : Bytes) (c1 c2 : List Bytes) (h : c1.flatten = c2.flatten) :
    feedChunks (delimStep CR) buf c1 = feedChunks (delimStep CR) buf c2 := by
  rw [feedChunks_eq_feed, feedChunks_eq_feed, h]

/-- PKONE (`E`-delimited): same statement. -/
theorem pkone_chunking_irrelevant (buf : Bytes) (c1 c2 : List Bytes) (h : c1.flatten = c2.flatten) :
    feedChunks (delimStep PKE) buf c1 = feedChunks (delimStep PKE) buf c2 := by
  rw [feedChunks_eq_feed, feedChunks_eq_feed, h]

/-- Delimiter decoders resynchronise at the next delimiter: whatever was carried and whatever noise `g` arrived, after
one delimiter every following frame (not containing the delimiter) is delivered exactly, in order, nothing is carried. -/
theorem delim_resync_then_delivered (d : Nat) (buf g : Bytes) (fs : List Bytes) (h : ∀ f ∈ fs, d ∉ f) :
    (feed (delimStep d) (feed (delimStep d) buf (g ++ [d])).1 (fs.flatMap (· ++ [d]))) = ([], fs) := by
  have h0 : (feed (delimStep d) buf (g ++ [d])).1 = [] := by
    rw [Framing.feed_append]; simp [feed, delimStep]
  rw [h0]
  clear h0
  induction fs with
  | nil => rfl
  | cons f r ih =>
    simp only [List.flatMap_cons]
    rw [Framing.feed_append, delim_frame d [] f (h f List.mem_cons_self)]
    simp only [List.nil_append]
    rw [ih (fun g hg => h g (List.mem_cons_of_mem _ hg))]
    simp

/-- OPP: the transcription of `_parse_msg` (buffer, `_lost_synch`, `while strlen > 2`, 7/11-byte frames), run on any
chunking from the initial state, emits exactly the frames of the byte-at-a-time automaton on the concatenated bytes,
and its carried `(part_msg, _lost_synch)` normalises (`absSt`) to the automaton's state.  The carried pair itself *does*
depend on the chunking; its normal form does not. -/
theorem opp_parse_refines_automaton (chunks : List Bytes) :
    feed aStep .idle chunks.flatten = (absSt (parseChunks {} chunks).1, (parseChunks {} chunks).2) :=
  (parseChunks_sim chunks {} rfl).1

/-- OPP `chunking_irrelevant`: two ways of splitting the same byte stream give the same frames and bisimilar
(equal after normalisation) carried states. -/
theorem opp_chunking_irrelevant (c1 c2 : List Bytes) (h : c1.flatten = c2.flatten) :
    (parseChunks {} c1).2 = (parseChunks {} c2).2 ∧ absSt (parseChunks {} c1).1 = absSt (parseChunks {} c2).1 := by
  have a := opp_parse_refines_automaton c1
  have b := opp_parse_refines_automaton c2
  rw [h] at a
  rw [a] at b
  exact ⟨(Prod.mk.inj b).2, (Prod.mk.inj b).1⟩

/-- the same from any quiet carried state (the invariant `_parse_msg` re-establishes on every return) -/
theorem opp_chunking_irrelevant_from (s : PSt) (hq : Quiet s) (c1 c2 : List Bytes) (h : c1.flatten = c2.flatten) :
    (parseChunks s c1).2 = (parseChunks s c2).2 ∧ absSt (parseChunks s c1).1 = absSt (parseChunks s c2).1 := by
  have a := (parseChunks_sim c1 s hq).1
  have b := (parseChunks_sim c2 s hq).1
  rw [h] at a
  rw [a] at b
  exact ⟨(Prod.mk.inj b).2, (Prod.mk.inj b).1⟩

/-- non-vacuity + the chunking dependence of the raw carried state: noise `41 ff ff ff ff` in one read leaves nothing carried,
split 4+1 it leaves `ff`; both normalise to the same automaton state. -/
example : (parseChunks {} [[0x41, 0xff, 0xff, 0xff, 0xff]]).1 = { buf := [], lost := true } ∧
    (parseChunks {} [[0x41, 0xff, 0xff, 0xff], [0xff]]).1 = { buf := [0xff], lost := true } := by decide
example : (parseChunks {} [[0x20, 8, 1, 2], [3, 4, 0x55, 0xff]]).2 = [[0x20, 8, 1, 2, 3, 4, 0x55]] := by decide

/-- `_parse_msg` never runs out of loop iterations: on return the loop condition is false or it hit `break`. -/
theorem opp_parse_terminates (s : PSt) (c : Bytes) : iter (parseChunk s c).1 = none := by
  unfold parseChunk
  apply parseLoop_done
  simp only [Framing.measure]
  split <;> omega

/-- The generated table is a permutation of 0..255 (checked entry by entry against the generated inverse). -/
theorem crc8_table_is_permutation (i j : Nat) (hi : i < 256) (hj : j < 256)
    (h : Gen.crc8Table.getD i 0 = Gen.crc8Table.getD j 0) : i = j := tbl_inj i j hi hj h

/-- CRC-8 detects every single-byte error: a frame `data ++ [crc]` that passes the check fails it after any change of
exactly one byte — in the data or in the CRC byte itself. -/
theorem crc8_detects_single_byte (p s : Bytes) (b b' k : Nat) (hp : ∀ x ∈ p, x < 256) (hs : ∀ x ∈ s, x < 256)
    (hb : b < 256) (hb' : b' < 256) (hne : b ≠ b') (hok : crcOk (p ++ b :: s ++ [k]) = true) :
    crcOk (p ++ b' :: s ++ [k]) = false ∧ ∀ k', k' ≠ k → crcOk (p ++ b :: s ++ [k']) = false := by
  have e : ∀ (d : Bytes) (x : Nat), crcOk (d ++ [x]) = (crc8 d == x) := by
    intro d x; simp [crcOk]
  have e1 : ∀ x, p ++ b :: s ++ [x] = (p ++ b :: s) ++ [x] := by intro x; simp
  have e2 : ∀ x, p ++ b' :: s ++ [x] = (p ++ b' :: s) ++ [x] := by intro x; simp
  rw [e1, e] at hok
  have hk : crc8 (p ++ b :: s) = k := by simpa using hok
  constructor
  · rw [e2, e]
    have := crc8_single_byte p s b b' hp hs hb hb' hne
    rw [hk] at this
    simp only [beq_eq_false_iff_ne, ne_eq]
    exact fun h => this h.symm
  · intro k' hk'
    rw [e1, e, hk]
    simp only [beq_eq_false_iff_ne, ne_eq]
    exact fun h => hk' h.symm

/-- CRC-8 detects every burst error of at most 8 bits: if a frame passes the check and an error pattern confined to 8
consecutive bits — the low `j` bits of one byte (`e1`) and the high `8-j` bits of the next (`h * 2^j`), anywhere in the
frame including the CRC byte, not all zero — is xor-ed onto it, the result fails the check.  (Linearity of the regenerated
table and the 2304 burst patterns are kernel-checked against the table; the rest is the usual residue argument.) -/
theorem crc8_detects_burst (f : Bytes) (i k j h e1 : Nat) (hf : ∀ b ∈ f, b < 256) (hlen : f.length = i + 2 + k)
    (hj : j ≤ 8) (h1 : e1 < 2 ^ j) (h2 : h < 2 ^ (8 - j)) (hnz : e1 ≠ 0 ∨ h ≠ 0) (hok : crcOk f = true) :
    crcOk (xorL f (List.replicate i 0 ++ [e1, h * 2 ^ j] ++ List.replicate k 0)) = false := by
  obtain ⟨b1, b2⟩ := burst_bounds j h e1 hj h1 h2
  have hel : f.length = (List.replicate i 0 ++ [e1, h * 2 ^ j] ++ List.replicate k 0).length := by simp; omega
  have he : ∀ b ∈ List.replicate i 0 ++ [e1, h * 2 ^ j] ++ List.replicate k 0, b < 256 := by
    intro b hb
    simp only [List.append_assoc, List.mem_append, List.mem_replicate, List.mem_cons, List.not_mem_nil, or_false] at hb
    rcases hb with ⟨_, rfl⟩ | (rfl | rfl) | ⟨_, rfl⟩ <;> omega
  have hne : f ≠ [] := by intro h0; rw [h0] at hlen; simp at hlen; omega
  have hx := xorL_length f _ hel
  have hne' : xorL f (List.replicate i 0 ++ [e1, h * 2 ^ j] ++ List.replicate k 0) ≠ [] := by
    intro h0; rw [h0] at hx; simp at hx; exact hne (List.eq_nil_of_length_eq_zero hx.symm)
  have r0 := (crcOk_iff_residue f hne hf).mp hok
  have lin := foldl_crc_lin f _ 255 0 hel (by omega) (by omega) hf he
  rw [Nat.xor_zero, r0, Nat.zero_xor] at lin
  cases hc : crcOk (xorL f (List.replicate i 0 ++ [e1, h * 2 ^ j] ++ List.replicate k 0)) with
  | false => rfl
  | true =>
    have := (crcOk_iff_residue _ hne' (xorL_lt f _ hf he)).mp hc
    rw [lin] at this
    exact absurd this (burst_residue_ne_zero i k j h e1 hj h1 h2 hnz)

/-- non-vacuity: a burst across the boundary of the last data byte and the CRC byte of a real input frame -/
example : crcOk (xorL [0x20, 8, 0xff, 0xff, 0xff, 0xfe, crc8 [0x20, 8, 0xff, 0xff, 0xff, 0xfe]]
    (List.replicate 5 0 ++ [0x07, 0x15 * 2 ^ 3] ++ List.replicate 0 0)) = false := by decide

/-- non-vacuity: a real 7-byte input frame passes, its single-byte corruptions fail -/
example : crcOk [0x20, 8, 0xff, 0xff, 0xff, 0xfe, crc8 [0x20, 8, 0xff, 0xff, 0xff, 0xfe]] = true := by decide
example : crcOk [0x20, 8, 0xff, 0xfd, 0xff, 0xfe, crc8 [0x20, 8, 0xff, 0xff, 0xff, 0xfe]] = false := by decide

/-- A frame with a wrong checksum never changes a switch state: cards (old_state and reported switch states) are
untouched and no switch event is produced; only the bad-CRC counter moves. -/
theorem bad_crc_no_change (p : Plat) (f : Bytes) (h : crcOk f = false) :
    (processFrame p f).1.inp = p.inp ∧ (processFrame p f).1.mtx = p.mtx ∧ (processFrame p f).2 = [] := by
  unfold processFrame
  split
  · split
    · simp [h]
    · simp
  · split
    · simp [h]
    · simp
  · simp

/-- Switch states equal the last report (OPP): `updCards` is what a frame with a correct CRC does to the card table.
If every card's reported switch states mirror its `old_state` (established by the initial read), they still do
afterwards, and if the addressed card exists it now has `old_state` = the frame's payload bits and reported switch
states = their complement (inputs are active low).  Frames with a wrong CRC change nothing (`bad_crc_no_change`),
frames for an unknown card leave every card as it was (second conjunct's hypothesis fails, first conjunct holds). -/
theorem opp_states_equal_last_report (base a n : Nat) (new : List Bool) (cs : List Card) (hn : new.length = n)
    (hinv : ∀ c ∈ cs, c.sw = c.old.map (!·) ∧ c.old.length = n) :
    (∀ c ∈ (updCards base a new cs).1, c.sw = c.old.map (!·) ∧ c.old.length = n) ∧
    ((∃ c ∈ cs, c.addr = a) → ∃ c ∈ (updCards base a new cs).1, c.addr = a ∧ c.old = new ∧ c.sw = new.map (!·)) := by
  induction cs with
  | nil => simp [updCards]
  | cons c r ih =>
    have hc := hinv c List.mem_cons_self
    have hr := ih (fun x hx => hinv x (List.mem_cons_of_mem _ hx))
    unfold updCards
    by_cases ha : c.addr = a
    · simp only [ha, if_true]
      have hsw : updSw c.old new c.sw = new.map (!·) := updSw_follows c.old new c.sw (by omega) hc.1
      constructor
      · intro x hx
        rcases List.mem_cons.mp hx with rfl | hx
        · exact ⟨hsw, hn⟩
        · exact hinv x (List.mem_cons_of_mem _ hx)
      · intro _
        exact ⟨_, List.mem_cons_self, rfl, rfl, hsw⟩
    · simp only [ha, if_false]
      constructor
      · intro x hx
        rcases List.mem_cons.mp hx with rfl | hx
        · exact hc
        · exact hr.1 x hx
      · intro ⟨x, hx, hxa⟩
        rcases List.mem_cons.mp hx with rfl | hx
        · exact absurd hxa ha
        · obtain ⟨y, hy, h3⟩ := hr.2 ⟨x, hx, hxa⟩
          exact ⟨y, List.mem_cons_of_mem _ hy, h3⟩

/-- FAST: after a `-L:`/`/L:` report for a configured switch its state is the reported one, all others are unchanged;
frames that are skipped, ignored or unknown change nothing. -/
theorem fast_event_sets_one_switch (s : FSw) (n : Nat) (h : n < s.table.length) :
    (fastApply s (.closed n)).table[n]? = some true ∧ (fastApply s (.opened n)).table[n]? = some false ∧
    (∀ m, m ≠ n → (fastApply s (.closed n)).table[m]? = s.table[m]? ∧ (fastApply s (.opened n)).table[m]? = s.table[m]?) ∧
    fastApply s .skipped = s ∧ fastApply s .undecodable = s ∧ fastApply s .ignored = s ∧ fastApply s .noproc = s := by
  refine ⟨setAt_get _ _ _ h, setAt_get _ _ _ h, fun m hm => ⟨setAt_other _ _ _ _ hm, setAt_other _ _ _ _ hm⟩,
    rfl, rfl, rfl, rfl⟩

/-- FAST, snapshots and events together: after *any* list of reports — `SA:` snapshots and `-L:`/`/L:` events in any
order, including repeated identical snapshots and snapshots contradicting earlier events — the state of a configured
switch `n` is what the LAST report that mentions it said: an event for `n` gives the reported logical state, a snapshot
listing `n` gives `invert xor bit`; reports after it that are silent about `n` (events for other switches, snapshots too
short to list `n`) do not matter, and neither does anything before it. -/
theorem fast_state_is_last_report (s : PSw) (pre post : List SOp) (n : Nat) (cur : Bool)
    (hn : s.logical[n]? = some cur) (hc : s.cfg[n]? = some true) (hpost : ∀ x ∈ post, Silent s n x) :
    (∀ a, (swRun s (pre ++ .ev n a :: post)).logical[n]? = some a) ∧
    (∀ bits i b, s.inv[n]? = some i → bits[n]? = some b →
        (swRun s (pre ++ .snap bits :: post)).logical[n]? = some (i != b)) := by
  constructor
  · intro a
    rw [(swRun_get _ s n).1, hn]
    simp only [Option.map_some, List.foldl_append, List.foldl_cons]
    rw [foldl_silent s n post hpost]
    simp [sayAt, hc]
  · intro bits i b hi hb
    rw [(swRun_get _ s n).1, hn]
    simp only [Option.map_some, List.foldl_append, List.foldl_cons]
    rw [foldl_silent s n post hpost]
    simp [sayAt, snapAt, hc, hi, hb]

/-- which reports are silent about switch `n`: an event for another switch, a snapshot that does not list `n`, and every
report when `n` is not a configured switch; a switch nobody mentions keeps its state. -/
theorem fast_silent_reports (s : PSw) (n : Nat) :
    (∀ m a, m ≠ n → Silent s n (.ev m a)) ∧ (∀ bits, bits[n]? = none → Silent s n (.snap bits)) ∧
    (s.cfg[n]? ≠ some true → ∀ o, Silent s n o) ∧
    (∀ ops, (∀ o ∈ ops, Silent s n o) → (swRun s ops).logical[n]? = s.logical[n]?) := by
  refine ⟨?_, ?_, ?_, ?_⟩
  · intro m a hm cur; simp [sayAt, hm]
  · intro bits hb cur; simp only [sayAt, snapAt, hb]; split
    · rename_i h; cases h
    · rfl
  · intro hc o cur
    cases o with
    | snap bits =>
      simp only [sayAt, snapAt]
      split
      · rename_i h1 _ _; exact absurd h1 hc
      · rfl
    | ev m a => simp [sayAt, hc]
  · intro ops h
    rw [(swRun_get ops s n).1]
    cases hl : s.logical[n]? with
    | none => rfl
    | some cur => simp [foldl_silent s n ops h]

/-- `hw_switch_data` is the last snapshot, whatever events came before or after it. -/
theorem fast_hw_is_last_snapshot (s : PSw) (pre post : List SOp) (bits : List Bool)
    (h : ∀ o ∈ post, ∀ b, o ≠ .snap b) : (swRun s (pre ++ .snap bits :: post)).hw = bits :=
  swRun_hw_last pre post bits s h

/-- non-vacuity: NO switch 1 and NC switch 2; an event, a contradicting snapshot, the same snapshot again, an event -/
example : (swRun { cfg := [false, true, true], inv := [false, false, true], logical := [false, false, false] }
    [.ev 1 true, .snap [true, false, false], .snap [true, false, false], .ev 2 false, .ev 0 true]).logical
    = [false, false, false] ∧
    (swRun { cfg := [false, true, true], inv := [false, false, true], logical := [false, false, false] }
    [.ev 1 true, .snap [true, false, false]]).logical = [false, false, true] := by decide

/-- A well-framed but malformed FAST frame (`-L:G1`) is skipped; the frames around it are decoded (after the D22 fix). -/
example : (fastFrames { table := List.replicate 16 false } (feed (delimStep CR) []
    [45, 76, 58, 48, 65, 13, 45, 76, 58, 71, 49, 13, 45, 76, 58, 48, 66, 13]).2).2
    = [.closed 10, .skipped, .closed 11] := by decide

/-- Queued commands keep their order: at every point of every run, what has been written followed by what is still
queued is exactly the sequence of commands handed to the communicator. -/
theorem writer_fifo (ops : List WOp) :
    (wRun {} ops).log ++ (wRun {} ops).queue.map (·.id) = enqueued ops := by
  have := wRun_fifo ops {}
  simpa using this

/-- Flow control, the part that holds (known finding D7): the writer itself never waits, so "nothing is written while a
confirmation is outstanding" holds only for senders that hand over a command when nothing is queued and nothing is
outstanding (the discipline of `send_and_wait_for_response_processed` used by one task at a time). -/
theorem writer_silent_until_confirmed_partial (ops : List WOp) (h : disciplined {} ops = true) :
    countViol {} ops = 0 := by
  have key : ∀ (ops : List WOp) (s : WSt), (s.flag = true → s.queue = []) → s.queue.length ≤ 1 →
      disciplined s ops = true → countViol s ops = 0 := by
    intro ops
    induction ops with
    | nil => intro s _ _ _; rfl
    | cons o r ih =>
      intro s h1 h2 hd
      simp only [disciplined, Bool.and_eq_true] at hd
      simp only [countViol]
      cases o with
      | enq m =>
        have hd1 := hd.1
        simp only [Bool.and_eq_true, Bool.not_eq_true', List.isEmpty_iff] at hd1
        have := ih (wStep s (.enq m)) (by simp [wStep, hd1.1]) (by simp [wStep, hd1.2]) hd.2
        simp [violates, this]
      | step =>
        cases hq : s.queue with
        | nil =>
          have e : wStep s .step = s := by simp [wStep, hq]
          have hv : violates s .step = false := by simp [violates, hq]
          have := ih s h1 h2 (by rw [← e]; exact hd.2)
          simp [hv, e, this]
        | cons m q =>
          have hq0 : q = [] := by
            rw [hq] at h2; simp at h2; exact h2
          have hf : s.flag = false := by
            cases hf : s.flag with
            | false => rfl
            | true => have := h1 hf; rw [hq] at this; simp at this
          have hv : violates s .step = false := by simp [violates, hf]
          have hq' : (wStep s .step).queue = [] := by
            simp only [wStep, hq]; cases m.confirm <;> simp [hq0]
          have := ih (wStep s .step) (fun _ => hq') (by rw [hq']; simp) hd.2
          simp [hv, this]
      | recv hdr =>
        have := ih (wStep s (.recv hdr)) (by
            simp only [wStep]
            cases s.until_ with
            | none => exact h1
            | some u => simp only; split <;> simp_all) (by
            simp only [wStep]
            cases s.until_ with
            | none => exact h2
            | some u => simp only; split <;> simp_all) hd.2
        simp [violates, this]
  exact key ops {} (by simp) (by simp) h

/-- Known finding D7 (recorded, not repaired): the full statement `∀ ops, countViol {} ops = 0` is false of the code.
`send_with_confirmation("DL:01","DL:")`, `send_and_forget("TL:02")`: the second command is written while the first one's
confirmation is still outstanding (`pause_sending` sets the flag and `await pause_sending_flag.wait()` returns at once). -/
theorem writer_silent_until_confirmed_witness :
    countViol {} [.enq ⟨1, some [68, 76, 58]⟩, .enq ⟨2, none⟩, .step, .step] = 1 ∧
    (wRun {} [.enq ⟨1, some [68, 76, 58]⟩, .enq ⟨2, none⟩, .step, .step]).log = [1, 2] ∧
    (wRun {} [.enq ⟨1, some [68, 76, 58]⟩, .enq ⟨2, none⟩, .step, .step]).flag = true := by
  decide

/-- non-vacuity of the discipline: confirmed command, its confirmation, next command -/
example : disciplined {} [.enq ⟨1, some [68, 76, 58]⟩, .step, .recv [68, 76, 58], .enq ⟨2, none⟩, .step] = true := by decide

/-- OPP resynchronises after idle: whatever garbage `g` arrived (in whatever state it left the decoder), after 11 idle
(EOM) bytes every following well-formed input frame is decoded exactly and the decoder is idle again.  (Unconditional
self-synchronisation of length-framed data is false, hence the idle bytes.) -/
theorem opp_resync_after_idle (g : Bytes) (a : Nat) (p : Bytes) (ha : isAddr a = true) (hp : p.length = 5) :
    feed aStep (feed aStep (feed aStep .idle g).1 (List.replicate 11 EOM)).1 (a :: CMD_INP :: p)
      = (.idle, [a :: CMD_INP :: p]) :=
  frame_from_rest _ (eoms_settle _ (feed_needOk g .idle trivial)) a p ha hp

theorem opp_resync_after_idle_matrix (g : Bytes) (a : Nat) (p : Bytes) (ha : isAddr a = true) (hp : p.length = 9) :
    feed aStep (feed aStep (feed aStep .idle g).1 (List.replicate 11 EOM)).1 (a :: CMD_MTX :: p)
      = (.idle, [a :: CMD_MTX :: p]) :=
  matrix_frame_from_rest _ (eoms_settle _ (feed_needOk g .idle trivial)) a p ha hp

/-- Known finding D7, second half (recorded): a lost response is never retried.  However many time-outs pass after
`send_and_wait_for_response_processed` handed its command over, the command has been written exactly once and the
caller is still waiting (the time-out covers the hand-over to the queue, not the response). -/
theorem lost_response_retried_witness (n maxRetries : Nat) :
    (rRun (rAdvance { maxRetries := maxRetries }) (List.replicate n .timeout)).written = 1 ∧
    (rRun (rAdvance { maxRetries := maxRetries }) (List.replicate n .timeout)).phase = .waitDone := by
  have h0 : rAdvance { maxRetries := maxRetries } =
      { noResp := false, written := 1, maxRetries := maxRetries, phase := .waitDone } := by
    simp [rAdvance]
  rw [h0]
  induction n with
  | zero => simp [rRun]
  | succ k ih =>
    rw [List.replicate_succ]
    simp only [rRun]
    have : rStep { noResp := false, written := 1, maxRetries := maxRetries, phase := .waitDone } .timeout
        = { noResp := false, written := 1, maxRetries := maxRetries, phase := .waitDone } := by
      simp [rStep]
    rw [this]; exact ih

/-- … and the part that holds: when the response does arrive the caller is released, from either waiting place. -/
theorem lost_response_retried_partial (s : RSt) (h : s.phase ≠ .finished) : (rStep s .response).phase = .finished := by
  unfold rStep rAdvance
  cases hp : s.phase <;> simp_all

/-- Known finding (recorded): a frame that is not valid UTF-8 makes `parse_incoming_raw_bytes` raise
(`ignore_decode_errors` is False after connect), i.e. the full statement "every byte stream is decoded without an
exception" is false; what holds is stated on decodable frames. -/
theorem fast_noise_undecodable_witness : fastDispatch [45, 76, 58, 48, 255] = .undecodable := by decide

/-- … and the part that holds: a frame of ASCII bytes is never reported as undecodable (it is dispatched, ignored or
skipped with a warning). -/
theorem fast_ascii_frame_never_raises_partial (f : Bytes) (h : ∀ b ∈ f, b < 128) : fastDispatch f ≠ .undecodable := by
  unfold fastDispatch
  have : f.any (fun b => decide (128 ≤ b)) = false := by
    rw [List.any_eq_false]
    intro b hb
    have := h b hb
    simp; omega
  rw [this]
  simp only [Bool.false_eq_true, if_false]
  repeat' split
  all_goals simp

/-- PKONE (after the repair): every frame of every byte stream is handled without raising — an empty frame is dropped,
a frame with a non-ASCII byte is skipped with a warning, every other frame is delivered unchanged. -/
theorem pkone_every_frame_handled (f : Bytes) :
    (f = [] → pkDeliver f = .empty) ∧
    (f ≠ [] → (∃ b ∈ f, 128 ≤ b) → pkDeliver f = .skipped) ∧
    (f ≠ [] → (∀ b ∈ f, b < 128) → pkDeliver f = .msg f) := by
  refine ⟨?_, ?_, ?_⟩
  · intro h; subst h; rfl
  · intro hne ⟨b, hb, h128⟩
    have h1 : f.isEmpty = false := by cases f <;> simp_all
    have h2 : f.any (fun b => decide (128 ≤ b)) = true := List.any_eq_true.mpr ⟨b, hb, by simpa using h128⟩
    simp [pkDeliver, h1, h2]
  · intro hne h
    have h1 : f.isEmpty = false := by cases f <;> simp_all
    have h2 : f.any (fun b => decide (128 ≤ b)) = false := by
      rw [List.any_eq_false]; intro b hb; have := h b hb; simp; omega
    simp [pkDeliver, h1, h2]

/-- PKONE: every well-formed frame after noise is delivered.  Whatever was carried and whatever noise `g` arrived (any
bytes at all), after the next delimiter every following non-empty ASCII frame is delivered exactly, in order. -/
theorem pkone_frames_after_noise_delivered (buf g : Bytes) (fs : List Bytes)
    (h : ∀ f ∈ fs, PKE ∉ f ∧ f ≠ [] ∧ ∀ b ∈ f, b < 128) :
    pkRun (pkRun buf (g ++ [PKE])).1 (fs.flatMap (· ++ [PKE])) = ([], fs.map .msg) := by
  have key := delim_resync_then_delivered PKE buf g fs (fun f hf => (h f hf).1)
  unfold pkRun
  have e : (69 : Nat) = PKE := rfl
  simp only [e]
  rw [key]
  simp only [Prod.mk.injEq, true_and]
  apply List.map_congr_left
  intro f hf
  exact (pkone_every_frame_handled f).2.2 (h f hf).2.1 (h f hf).2.2

/-! ## Session 3: the protocol code behind the frame decoders (`Model/Framing2.lean`) -/

open MpfVerif.Framing2

/-- PKONE, whole receive path (`_parse_msg` with its in-flight counter and `send_ready`, `process_received_message`,
`receive_switch`, `receive_all_switches`): the complete state after a byte stream — carried bytes, every report made to the
switch controller, `hw_switch_data`, counter, `send_ready` — and the observations do not depend on how the bytes were split
into reads. -/
theorem pkone_payload_chunking_irrelevant (s : PKSt) (c1 c2 : List Bytes) (h : c1.flatten = c2.flatten) :
    feedChunks pkStep s c1 = feedChunks pkStep s c2 := by
  rw [feedChunks_eq_feed, feedChunks_eq_feed, h]

/-- PKONE: a malformed payload never changes a switch.  Whatever frame arrives (any bytes without the delimiter), unless
it is a well-formed `PSW` report the table of reported switch states is untouched, and unless it is a well-formed `PSA`
report `hw_switch_data` is untouched; and a frame is a well-formed `PSW` report only if it is exactly
`PSW` + board digit + two switch digits + `0`/`1` (a truncated, over-long or non-numeric payload reports nothing). -/
theorem pkone_malformed_changes_nothing (s : PKSt) (f : Bytes) (hd : 69 ∉ f) (hb : s.buf = []) :
    ((∀ b n st, pkDispatch f ≠ .sw b n st) → (feed pkStep s (f ++ [69])).1.table = s.table) ∧
    ((∀ b bits, pkDispatch f ≠ .all b bits) → (feed pkStep s (f ++ [69])).1.hw = s.hw) ∧
    (∀ b n st, pkDispatch f = .sw b n st →
      ∃ a y z d, f = [80, 83, 87, a, y, z, d] ∧ digit? a = some b ∧ (∃ t u, digit? y = some t ∧ digit? z = some u ∧
        n = t * 10 + u) ∧ bit? d = some st) := by
  rw [pk_frame s f hd]
  simp only [hb, List.nil_append]
  refine ⟨?_, ?_, ?_⟩
  · intro h
    simp only [pkClose]
    cases hdis : pkDispatch f with
    | sw b n st => exact absurd hdis (h b n st)
    | _ => rfl
  · intro h
    simp only [pkClose]
    cases hdis : pkDispatch f with
    | all b bits => exact absurd hdis (h b bits)
    | _ => rfl
  · intro b n st h
    unfold pkDispatch at h
    split at h; · cases h
    split at h; · cases h
    split at h; · cases h
    simp only at h
    split at h
    · rename_i hh
      split at h
      · rename_i a y z d hp
        split at h
        · rename_i b' t u st' h1 h2 h3 h4
          cases h
          refine ⟨a, y, z, d, ?_, h1, ⟨t, u, h2, h3, rfl⟩, h4⟩
          have := List.take_append_drop 3 f
          rw [hh, hp] at this
          exact this.symm
        · cases h
      · cases h
    · split at h
      · split at h
        · split at h <;> cases h
        · cases h
      · split at h <;> cases h

/-- PKONE, state = last report: after any sequence of frames — well-formed or not, for any boards — the state the switch
controller was last told for switch `(b, n)` is the one of the LAST well-formed `PSW` report for it: frames after it that
are not a report for `(b, n)` (malformed ones included) do not matter, and neither does anything before it. -/
theorem pkone_state_is_last_report (s : PKSt) (pre post : List Bytes) (f : Bytes) (b n : Nat) (st : Bool)
    (hb : s.buf = []) (hd : ∀ g ∈ pre ++ f :: post, 69 ∉ g) (hf : pkDispatch f = .sw b n st)
    (hpost : ∀ g ∈ post, ∀ st', pkDispatch g ≠ .sw b n st') :
    lookupSw (b, n) (feed pkStep s ((pre ++ f :: post).flatMap (· ++ [69]))).1.table = some st := by
  rw [(pk_frames_table _ s hb hd).1]
  have hsw : swOf f = some ((b, n), st) := by simp [swOf, hf]
  simp only [List.filterMap_append, List.filterMap_cons, hsw, List.reverse_append, List.reverse_cons, List.append_assoc]
  rw [lookup_skip]
  · simp [lookupSw]
  · intro e he
    rw [List.mem_reverse, List.mem_filterMap] at he
    obtain ⟨g, hg, hge⟩ := he
    intro hk
    unfold swOf at hge
    cases hdis : pkDispatch g with
    | sw b' n' st' =>
      rw [hdis] at hge
      simp only [Option.some.injEq] at hge
      rw [← hge] at hk
      simp only [Prod.mk.injEq] at hk
      exact hpost g hg st' (by rw [hdis, hk.1, hk.2])
    | _ => rw [hdis] at hge; cases hge

/-- PKONE in-flight counter: after any bytes the counter has gone down by the number of delimiters received and never
below zero (truncated subtraction), whatever the frames contained; `send_ready`, once set, is never cleared by the reader. -/
theorem pkone_inflight_counter (s : PKSt) (l : Bytes) :
    (feed pkStep s l).1.inflight = s.inflight - l.count 69 ∧ (s.ready = true → (feed pkStep s l).1.ready = true) :=
  ⟨(pk_inflight l s).1, (pk_inflight l s).2.1⟩

/-- non-vacuity: a report, its truncation (which must not be read as "switch 7 active"), a valid frame after it -/
example : (feed pkStep { inflight := 2 } ([80, 83, 87, 48, 48, 55, 48, 69] ++ [80, 83, 87, 48, 48, 55, 69] ++
    [80, 83, 87, 48, 49, 50, 49, 69])).2 = [.sw 0 7 false, .skipped, .sw 0 12 true] := by decide

/-- OPP initialisation framing (after the repair): `readuntil(EOM, 7·n)` returns the complete reply of `n` cards — the
`7·n` response bytes and the EOM — whatever the response bytes are, including CRC or payload bytes equal to the EOM
value, and leaves what follows in the stream. -/
theorem opp_readuntil_whole_reply (body rest : Bytes) (n : Nat) (h : body.length = 7 * n) :
    readUntil 255 (7 * n) [] (body ++ 255 :: rest) = some (body ++ [255], rest) := by
  have := readUntil_body 255 (7 * n) body rest [] (by simp [h])
  simpa using this

/-- Defect found by the extension (repaired): with the old minimum length 6 a card whose GET_GEN2_CFG response has CRC
byte `0xff` (address `0x21`, wings input / hi-side incand / matrix-out / input) ends the reply after 7 bytes; the second
card's response stays in the stream. -/
theorem opp_readuntil_min6_witness :
    crc8 [0x21, 13, 2, 7, 10, 2] = 255 ∧
    readUntil 255 6 [] ([0x21, 13, 2, 7, 10, 2, 255] ++ [0x22, 13, 2, 2, 2, 2, crc8 [0x22, 13, 2, 2, 2, 2]] ++ [255])
      = some ([0x21, 13, 2, 7, 10, 2, 255], [0x22, 13, 2, 2, 2, 2, crc8 [0x22, 13, 2, 2, 2, 2], 255]) := by
  decide

/-- OPP, several chained cards: the loop of `get_gen2_cfg_resp` / `vers_resp` over a reply that carries the well-formed
responses of any number of cards (one after the other, then EOM) accepts exactly those responses, in chain order. -/
theorem opp_init_all_cards_parsed (cmd : Nat) (c : Nat × Bytes) (cs : List (Nat × Bytes)) (hc : WfCard c)
    (hcs : ∀ x ∈ cs, WfCard x) :
    multiParse cmd ((c :: cs).flatMap (enc cmd) ++ [255]) = (c :: cs, .ok) :=
  multi_all cmd cs c hc hcs

/-- OPP init, a bad frame changes nothing: if the response of one card fails its CRC, exactly the cards before it are
accepted — nothing is taken from the damaged response nor from anything after it — and the loop reports the bad CRC. -/
theorem opp_init_bad_crc_stops (cmd : Nat) (pre : List (Nat × Bytes)) (a w0 w1 w2 w3 k : Nat) (tail : Bytes)
    (hpre : ∀ x ∈ pre, WfCard x) (ha : isAddr a = true) (hk : crc8 [a, cmd, w0, w1, w2, w3] ≠ k) :
    multiParse cmd (pre.flatMap (enc cmd) ++ [a, cmd, w0, w1, w2, w3, k] ++ tail) = (pre, .crc) :=
  multi_bad_crc cmd pre a w0 w1 w2 w3 k tail hpre ha hk

/-- non-vacuity: two cards, the second with a damaged payload byte -/
example : multiParse 13 (enc 13 (0x20, [2, 2, 2, 2]) ++ [0x21, 13, 1, 2, 4, 5, crc8 [0x21, 13, 1, 2, 4, 4]] ++ [255])
    = ([(0x20, [2, 2, 2, 2])], .crc) := by decide
example : WfCard (0x20, [2, 2, 2, 2]) := ⟨by decide, rfl⟩

/-- FAST configuration phase (`ID:` `CH:` `SL:` `DL:` `SA:` at boot …): what is decoded and what is carried does not
depend on how the bytes were split into reads. -/
theorem fast_cfg_chunking_irrelevant (buf : Bytes) (c1 c2 : List Bytes) (h : c1.flatten = c2.flatten) :
    feedChunks (dStep CR cfgFrame) buf c1 = feedChunks (dStep CR cfgFrame) buf c2 := by
  rw [feedChunks_eq_feed, feedChunks_eq_feed, h]

/-- FAST configuration phase, garbage between frames: whatever was carried and whatever garbage `g` arrived, after the
next `\r` every following response is dispatched exactly as if it had arrived alone, in order (the response glued to the
garbage is the one that can be lost — a delimiter protocol cannot do better). -/
theorem fast_cfg_frames_after_garbage (buf g : Bytes) (fs : List Bytes) (h : ∀ f ∈ fs, CR ∉ f) :
    feed (dStep CR cfgFrame) (feed (dStep CR cfgFrame) buf (g ++ [CR])).1 (fs.flatMap (· ++ [CR]))
      = ([], fs.flatMap cfgFrame) := by
  have h0 : (feed (dStep CR cfgFrame) buf (g ++ [CR])).1 = [] := by
    rw [Framing.feed_append]; simp [feed, dStep]
  rw [h0]
  exact dStep_frames CR cfgFrame fs h

/-- non-vacuity + the repaired defect: two `DL:` replies run together after a lost `\r` are skipped as malformed, the
`SL:` reply after them is processed -/
example : (feed (dStep CR cfgFrame) [] ([68, 76, 58, 48, 48, 44, 48, 48, 68, 76, 58, 48, 49, 13] ++
    [83, 76, 58, 48, 48, 44, 48, 48, 44, 48, 48, 44, 48, 48, 13])).2 = [.bad, .done hSL] := by decide

/-- Command order with several callers queued while one is awaited: at every point of every run of calls, fire-and-forget
sends and responses, the gated commands already written followed by the callers still waiting are exactly the callers in
call order — no caller overtakes another, none is dropped, none is written twice. -/
theorem gate_fifo (ops : List GOp) :
    ((gRun {} ops).written.filter (·.1)).map (·.2) ++ (gRun {} ops).waiting = callIds ops := by
  have := gRun_fifo ops {} (by intro _; rfl)
  simpa [gCalls] using this

/-- non-vacuity (and the known finding D7 seen from the callers' side): three callers, one response releases all of them -/
example : (gRun {} [.call 1, .call 2, .forget 9, .call 3, .resp]).written = [(true, 1), (false, 9), (true, 2), (true, 3)] ∧
    (gRun {} [.call 1, .call 2, .forget 9, .call 3, .resp]).fin = [1, 2, 3] := by decide

/-! ## third part (`Model/Framing3.lean`): OPP platform level -/
open MpfVerif.Framing3

/-- OPP initial reads (`read_gen2_inp_resp_initial` / `read_matrix_inp_resp_initial` behind `_parse_msg`): after ANY
list of delivered frames - good, wrong CRC, unknown card, other card - the `old_state` of card `(matrix?, address)` is
what the last frame with a correct CRC for that card said, and what it was before if there was none.  `lastGood` is the
specification: it looks at nothing but the frames' own content.  Hence a frame with a wrong checksum changes no card. -/
theorem opp_initial_state_is_last_report (fs : List Bytes) (c : ChainSt) (m : Bool) (a : Nat) :
    oldOf m a (fs.foldl initFrame c).cards = (oldOf m a c.cards).map (fun o => lastGood m a o fs) :=
  initFrames_spec fs c m a

/-- OPP steady state (`read_gen2_inp_resp` / `read_matrix_inp_resp`), for every card of every chain: if MPF's switch
states mirror the cards (`Mirror`: every input's state is the complement of its `old_state` bit - inputs are active
low), then after ANY list of delivered frames they still do, and `old_state` is the payload of the last frame with a
correct CRC for that card.  Together: MPF's switch states equal the last report from each board. -/
theorem opp_steady_state_is_last_report (fs : List Bytes) (c : ChainSt) (m : Bool) (a : Nat) (h : Mirror c.cards) :
    oldOf m a (steadyFrames c fs).1.cards = (oldOf m a c.cards).map (fun o => lastGood m a o fs) ∧
    Mirror (steadyFrames c fs).1.cards :=
  steadyFrames_spec fs c m a h

/-- `get_hw_switch_states` after the initial reads establishes `Mirror` (and leaves every `old_state` alone) whenever it
returns at all, whatever frames the initial reads delivered. -/
theorem opp_hw_states_mirror_initial_reads (fs : List Bytes) (c : ChainSt) (cs' : List OCard) (hl : LenOk c.cards)
    (h : hwCards (fs.foldl initFrame c).cards = some cs') :
    Mirror cs' ∧ ∀ m a, oldOf m a cs' = (oldOf m a c.cards).map (fun o => lastGood m a o fs) := by
  obtain ⟨h1, h2⟩ := hwCards_spec _ cs' h (initFrames_lenOk fs c hl)
  exact ⟨h1, fun m a => by rw [h2, initFrames_spec]⟩

/-- a frame with a wrong checksum changes no card and produces no switch event, in either phase -/
theorem opp_platform_bad_crc_changes_nothing (c : ChainSt) (f : Bytes) (h : decode f = .badCrc) :
    (initFrame c f).cards = c.cards ∧ (steadyFrame c f).1.cards = c.cards ∧ (steadyFrame c f).2 = [] ∧
    (steadyFrame c f).1.badCrc = c.badCrc + 1 := by
  simp [initFrame, steadyFrame, h]

/-- the steady-state reader (`_parse_msg` + handlers) on a chain: two ways of splitting the same bytes into reads give
the same cards (old_state and MPF's switch states), the same switch events and the same bad-CRC count -/
theorem opp_platform_chunking_irrelevant (c : ChainSt) (hq : Quiet c.ps) (c1 c2 : List Bytes)
    (h : c1.flatten = c2.flatten) :
    (steadyReads c c1).1.cards = (steadyReads c c2).1.cards ∧ (steadyReads c c1).2 = (steadyReads c c2).2 ∧
    (steadyReads c c1).1.badCrc = (steadyReads c c2).1.badCrc := by
  obtain ⟨a1, a2⟩ := steadyReads_eq c1 c
  obtain ⟨b1, b2⟩ := steadyReads_eq c2 c
  have e := (opp_chunking_irrelevant_from c.ps hq c1 c2 h).1
  rw [a1, a2, b1, b2, e]
  exact ⟨rfl, rfl, rfl⟩

/-- several chains: a read on chain `i` (initial or steady state) leaves every other chain's parser state, cards and
counters exactly as they were -/
theorem opp_chains_independent (s : OSt) (i j : Nat) (k : Bytes) (h : i ≠ j) :
    (oStep s (.initRead i k)).1.chains[j]? = s.chains[j]? ∧ (oStep s (.read i k)).1.chains[j]? = s.chains[j]? := by
  constructor
  · exact modChain_other i j _ s h
  · show (if s.steady then _ else _ : OSt × List OEv).1.chains[j]? = _
    split
    · exact modChain_other i j _ s h
    · exact modChain_other i j _ s h

/-- `_read_id` accepts exactly the well-formed 8 byte answers: address 0x20, command 0, four serial bytes, their CRC-8,
EOM - and returns the big-endian serial number -/
theorem opp_read_id_iff (r : Bytes) (n : Nat) :
    readId r = some n ↔ ∃ s0 s1 s2 s3, r = [32, 0, s0, s1, s2, s3, crc8 [32, 0, s0, s1, s2, s3], 255] ∧
      n = be32 [s0, s1, s2, s3] := by
  constructor
  · intro h
    unfold readId at h
    split at h
    · split at h
      · rename_i a c s0 s1 s2 s3 k e hc
        obtain ⟨h1, h2, h3, h4⟩ := hc
        subst h1 h3 h4
        injection h with h
        exact ⟨s0, s1, s2, s3, by rw [h2], h.symm⟩
      · cases h
    · cases h
  · rintro ⟨s0, s1, s2, s3, rfl, rfl⟩
    simp [readId]

/-- observation (outside the property, kept visible): a matrix card whose initial read arrives with a wrong CRC is
counted as read - the connection is registered - but its `old_state` is still the `[0, 0]` placeholder, and
`get_hw_switch_states` then raises (`TypeError` in the implementation) -/
theorem opp_initial_bad_crc_counted_witness :
    let c : ChainSt := { cards := [{ addr := 32, mtx := true, mask := [], old := none }], need := 1 }
    let c' := initRead c [32, 25, 1, 2, 3, 4, 5, 6, 7, 8, 0, 255]
    c'.reg = true ∧ c'.badCrc = 1 ∧ oldOf true 32 c'.cards = some none ∧ hwCards c'.cards = none := by decide

/-- observation (outside the property): an init reply that ends in `lost_synch()` arrives before the connection is
registered: `KeyError` (here a reply whose first byte is no address); once registered it is just `lost_synch()` -/
theorem opp_lost_synch_unregistered_witness :
    initDispatchU false [] [0x41, 0xff] = none ∧ (initDispatchU true [] [0x41, 0xff]).isSome = true := by decide

/-- non-vacuity: two cards on a chain, a good initial read for each, `get_hw_switch_states`, then polls with a bad-CRC
frame in between: the states are the last good reports -/
example :
    let c : ChainSt := { cards := [{ addr := 32, mtx := false, mask := [], old := some (List.replicate 32 false) }], need := 1 }
    let f1 := [32, 8, 255, 255, 255, 254, crc8 [32, 8, 255, 255, 255, 254]]
    let f2 := [32, 8, 255, 255, 255, 253, crc8 [32, 8, 255, 255, 255, 253]]
    let bad := [32, 8, 0, 0, 0, 0, 0]
    lastGood false 32 none [f1, bad, f2, bad] = some (beBits [255, 255, 255, 253]) ∧
    oldOf false 32 ([f1].foldl initFrame c).cards = some (some (beBits [255, 255, 255, 254])) ∧
    decode bad = .badCrc := by decide

/-! ## third part: FAST node discovery, PKONE connect phase -/

/-- FAST node discovery: whatever an `NN:` response contains, it either leaves the board table alone or appends exactly
one board - for a node inside the configured loop that was not registered before, all of whose predecessors are
registered, with the running totals of their switch and driver counts as its first switch / driver number. -/
theorem fast_nn_registers_consistently (s : NNSt) (p : Bytes) :
    (nnProcess s p).1.boards = s.boards ∨
    ∃ b, (nnProcess s p).1.boards = s.boards ++ [b] ∧ b.node < s.loop.length ∧ findBoard b.node s.boards = none ∧
      priorOf b.node s.boards = some (b.startSw, b.startDr) := by
  unfold nnProcess
  split
  · left; rfl
  · split
    · split
      · rename_i n0 d0 w0 _ _ _
        simp only
        split
        · left; rfl
        · split
          · left; rfl
          · rename_i hnf
            split
            · left; rfl
            · rename_i cfg hcfg
              split
              · left; rfl
              · split
                · left; rfl
                · rename_i ps pd hpr
                  have hlt : min n0 255 < s.loop.length := by
                    have := List.getElem?_eq_some_iff.mp hcfg
                    exact this.1
                  have hnone : findBoard (min n0 255) s.boards = none := by
                    cases hf : findBoard (min n0 255) s.boards with
                    | none => rfl
                    | some b => simp [hf] at hnf
                  split <;> try split
                  all_goals
                    right
                    exact ⟨_, rfl, hlt, hnone, hpr⟩
      · left; rfl
    · left; rfl

/-- the configuration-phase decoder with node discovery: independent of the chunking -/
theorem fast_nn_chunking_irrelevant (s : NNSt × Bytes) (c1 c2 : List Bytes) (h : c1.flatten = c2.flatten) :
    feedChunks cfgStep3 s c1 = feedChunks cfgStep3 s c2 := by
  rw [feedChunks_eq_feed, feedChunks_eq_feed, h]

/-- non-vacuity: two boards in loop order; a response for node 5 of a two-board loop and a response for node 1 before
node 0 are skipped -/
example :
    let s : NNSt := { loop := [[65], [66]] }
    (nnProcess s ([48, 48, 44, 65, 44] ++ [49, 46, 57] ++ [44, 48, 56, 44, 50, 48, 44, 48, 44, 48, 44, 48, 44, 48, 44, 48, 44, 48])).1.boards
      = [{ node := 0, sw := 32, dr := 8, startSw := 0, startDr := 0 }] ∧
    (nnProcess s ([48, 53, 44, 65, 44] ++ [49, 46, 57] ++ [44, 48, 56, 44, 50, 48, 44, 48, 44, 48, 44, 48, 44, 48, 44, 48, 44, 48])).2 = .bad ∧
    (nnProcess s ([48, 49, 44, 66, 44] ++ [49, 46, 57] ++ [44, 48, 56, 44, 50, 48, 44, 48, 44, 48, 44, 48, 44, 48, 44, 48, 44, 48])).2 = .bad := by
  decide

/-- PKONE connect phase: a `PCB` reply registers an extension board only if it is
`PCB` digit `X` `F` firmware-digits `H` revision-digits followed by one of the nine legal tails, with at least two
firmware digits; everything else registers nothing (no board / an exception that ends the connect) -/
theorem pkone_pcb_ext_only_wellformed (a : Nat) (m f h : Bytes) (hx : pcbParse a m = .ext f h) :
    ∃ d tl, m = [80, 67, 66, d, 88, 70] ++ f ++ [72] ++ h ++ tl ∧ (tailOf tl pcbTails).isSome = true ∧
      2 ≤ f.length ∧ (∀ x ∈ f, isDig x = true) ∧ (∀ x ∈ h, isDig x = true) := by
  unfold pcbParse at hx
  split at hx
  · cases hx
  · split at hx
    · rename_i d t r _
      split at hx
      · split at hx
        · rename_i r2 hr
          split at hx
          · split at hx
            · rename_i w hw
              split at hx
              · rename_i ht
                unfold fwCheck at hx
                split at hx
                · cases hx
                · split at hx
                  · cases hx
                  · injection hx with h1 h2
                    subst ht
                    refine ⟨d, (spanDig r2).2, ?_, by simp [hw], by rw [← h1]; omega, ?_, ?_⟩
                    · have e1 := spanDig_append r
                      have e2 := spanDig_append r2
                      rw [hr] at e1
                      rw [← h1, ← h2]
                      simp only [List.cons_append, List.nil_append, List.append_assoc, List.cons.injEq, true_and]
                      rw [e2, e1]
                    · rw [← h1]; exact spanDig_digits r
                    · rw [← h2]; exact spanDig_digits r2
              · split at hx
                · unfold fwCheck at hx
                  split at hx
                  · cases hx
                  · split at hx
                    · cases hx
                    · split at hx <;> cases hx
                · cases hx
            · cases hx
          · cases hx
        · cases hx
      · cases hx
    · cases hx

example : pcbParse 0 [80, 67, 66, 48, 88, 70, 49, 49, 72, 50, 80, 89, 69] = .ext [49, 49] [50] ∧
    pcbParse 3 [80, 67, 66, 50, 76, 70, 49, 48, 72, 49, 82, 71, 66, 87, 69] = .light [49, 48] [49] true ∧
    pcbParse 4 [80, 67, 66, 52, 78, 69] = .noBoard ∧ pcbParse 4 [] = .attrErr ∧
    pcnParse [80, 67, 78, 70, 49, 49, 72, 49, 69] = .ctrl [49, 49] [49] ∧ pcnParse [80, 67, 78, 70, 57, 72, 49, 69] = .valErr := by
  decide


end MpfVerif.C14
