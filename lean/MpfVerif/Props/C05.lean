import MpfVerif.Lemmas.BallLedger
import MpfVerif.Lemmas.BallPromise
/-!
# C05 — ball requests make progress: no lost or stuck ejects (PARTIAL: theorems about the ledger protocol)

Liveness of the real coroutines is explored by the harness (every case is run to rest and checked for idle devices,
served requests and retry/broken reports); the theorems below are about the eject loop of the ledger.
-/
namespace MpfVerif.C05
open MpfVerif.BallLedger

theorem creditReturn_fields (s : St) (d : Nat) :
    (creditReturn s d).phase = s.phase ∧ (creditReturn s d).cur = s.cur ∧ (creditReturn s d).tries = s.tries ∧
    (creditReturn s d).queue = s.queue ∧ (creditReturn s d).failed = s.failed ∧
    (creditReturn s d).brokenPosted = s.brokenPosted := by
  unfold creditReturn; split <;> simp

/-- **retry or report, retry side**: a failed eject (ball came back, or never left) that is accepted as *retryable*
carries the next attempt number `tries + 1`, is only possible while attempts remain (`max_eject_attempts = 0` or
`n < max`), records that number, and excludes the `broken` report in the same state. -/
theorem retry_or_report (c : Cfg) (s s' : St) (d n : Nat)
    (h : step c s (.ejectFailedReturn d n) = some s' ∨ step c s (.ejectFailedStuck d n) = some s') :
    n = s.tries.getD d 0 + 1 ∧ (c.maxOf d = 0 ∨ n < c.maxOf d) ∧ s'.tries = setAt s.tries d n ∧
    s'.failed = setAt s.failed d true ∧ step c s (.broken d) = none := by
  have key : ∀ ph, failCommon c s d n ph = some s' →
      n = s.tries.getD d 0 + 1 ∧ (c.maxOf d = 0 ∨ n < c.maxOf d) ∧ s'.tries = setAt s.tries d n ∧
      s'.failed = setAt s.failed d true ∧ step c s (.broken d) = none := by
    intro ph hf
    unfold failCommon at hf
    split at hf
    · rename_i t hcu
      split at hf
      · rename_i hg
        simp only [Bool.and_eq_true, Bool.or_eq_true, decide_eq_true_eq, beq_iff_eq] at hg
        have hb : step c s (.broken d) = none := by
          simp only [step, hcu]
          split
          · rename_i hb
            simp only [Bool.and_eq_true, Bool.or_eq_true, decide_eq_true_eq, beq_iff_eq] at hb
            omega
          · rfl
        split at hf
        · split at hf
          · cases hf; exact ⟨by omega, by omega, rfl, rfl, hb⟩
          · simp at hf
        · cases hf; exact ⟨by omega, by omega, rfl, rfl, hb⟩
      · simp at hf
    · simp at hf
  rcases h with h | h
  · exact key _ (by simpa [step] using h)
  · exact key _ (by simpa [step] using h)

/-- the retry that follows must carry exactly the recorded number: `ball_eject_attempt(num_attempts = k)` is only
accepted with `k = tries` -/
theorem retry_carries_recorded_number (c : Cfg) (s s' : St) (d t k : Nat) (h : step c s (.attempt d t k) = some s') :
    k = s.tries.getD d 0 ∧ s.ph d = .waitTarget ∧ s' = s := by
  simp only [step] at h
  split at h
  · rename_i hg
    simp only [Bool.and_eq_true, decide_eq_true_eq, beq_iff_eq] at hg
    cases h; exact ⟨by omega, hg.1.1.2, rfl⟩
  · simp at h

/-- **retry or report, report side**: `broken` is enabled only when the failing attempt was the last one
(`tries + 1 = max_eject_attempts > 0`) and has not been reported before; it marks the report, puts the device in
`eject_broken`, and excludes a retry in the same state. -/
theorem broken_reported_at_max (c : Cfg) (s s' : St) (d : Nat) (h : step c s (.broken d) = some s') :
    c.maxOf d > 0 ∧ s.tries.getD d 0 + 1 = c.maxOf d ∧ s.brokenPosted.getD d 0 = 0 ∧
    s'.brokenPosted = setAt s.brokenPosted d 1 ∧ s'.phase = setAt s.phase d .broken ∧
    ∀ n, step c s (.ejectFailedReturn d n) = none ∧ step c s (.ejectFailedStuck d n) = none := by
  have hf := creditReturn_fields s d
  simp only [step] at h
  split at h
  · rename_i t hcu
    split at h
    · rename_i hg
      simp only [Bool.and_eq_true, Bool.or_eq_true, decide_eq_true_eq, beq_iff_eq] at hg
      have hno : ∀ n ph, failCommon c s d n ph = none := by
        intro n ph
        simp only [failCommon, hcu]
        split
        · rename_i hb
          simp only [Bool.and_eq_true, Bool.or_eq_true, decide_eq_true_eq, beq_iff_eq] at hb
          omega
        · rfl
      have hno2 : ∀ n, step c s (.ejectFailedReturn d n) = none ∧ step c s (.ejectFailedStuck d n) = none :=
        fun n => ⟨by simpa [step] using hno n _, by simpa [step] using hno n _⟩
      split at h
      · split at h
        · cases h; exact ⟨by omega, by omega, by omega, by simp [hf], by simp [hf], hno2⟩
        · simp at h
      · cases h; exact ⟨by omega, by omega, by omega, by simp [hf], by simp [hf], hno2⟩
    · simp at h
  · simp at h

/-- **broken exactly once / no silent hang**: a device in `eject_broken` takes no further eject-loop transition — in
particular `broken` cannot be reported a second time and no attempt follows it. -/
theorem broken_is_terminal (c : Cfg) (s : St) (d : Nat) (hd : s.ph d = .broken) (t n : Nat) :
    step c s (.broken d) = none ∧ step c s (.attempt d t n) = none ∧ step c s (.ejectStart d t) = none ∧
    step c s (.ballLeft d) = none ∧ step c s (.waitTarget d) = none ∧ step c s (.waitBall d) = none ∧
    step c s (.ejectFailedReturn d n) = none ∧ step c s (.ejectFailedStuck d n) = none ∧
    step c s (.confirm d t) = none ∧ step c s (.lateConfirm d t) = none := by
  refine ⟨?_, ?_, ?_, ?_, ?_, ?_, ?_, ?_, ?_, ?_⟩ <;> simp [step, failCommon, hd] <;> (try split) <;> simp

/-- **no stuck phase**: in the three phases in which a device waits for the physical world, a timeout transition is
always enabled (given the structural facts that hold after `ejectStart`): `ejecting` can always fail as stuck or break,
`ball_left` can always time out into `failed_confirm`. -/
theorem no_stuck_state (c : Cfg) (s : St) (d : Nat) (hd : d < c.n) (hp : s.ph d = .ballLeft) :
    ∃ s', step c s (.confirmTimeout d) = some s' ∧ s'.phase = setAt s.phase d .failedConfirm := by
  exact ⟨{ s with phase := setAt s.phase d .failedConfirm }, by simp [step, hd, hp], rfl⟩

/-! ### progress measure -/

def rank : Phase → Bool → Nat
  | .ejecting, true => 7 | .failedConfirm, true => 7 | .idle, _ => 7
  | .waitBall, _ => 6 | .waitTarget, _ => 5 | .ejecting, false => 4 | .ballLeft, _ => 3 | .failedConfirm, false => 2
  | .broken, _ => 0

/-- work left in device `d`: queued ejects (each worth more than a whole eject with all its retries), plus for the
current eject the remaining attempts and the phase inside the attempt -/
def devMeasure (c : Cfg) (s : St) (d : Nat) : Nat :=
  (s.queue.getD d []).length * (8 * c.maxOf d + 8) +
  (match s.cu d with
   | none => 0
   | some _ => (c.maxOf d - s.tries.getD d 0) * 8 + rank (s.ph d) (s.failed.getD d false))

/-- **progress measure**: every step *inside* an eject attempt — the coil firing, the ball leaving, the confirm
window closing — strictly decreases the work left in the device; -/
theorem progress_measure (c : Cfg) (s s' : St) (d t : Nat) (op : Op)
    (hop : op = .ejectStart d t ∨ op = .ballLeft d ∨ op = .confirmTimeout d)
    (hl : d < s.phase.length) (hf : s.failed.getD d false = false)
    (hcur : (s.cu d).isSome) (h : step c s op = some s') :
    devMeasure c s' d < devMeasure c s d := by
  cases hcu : s.cu d with
  | none => simp [hcu] at hcur
  | some u =>
    rcases hop with rfl | rfl | rfl
    · simp only [step] at h
      split at h
      · rename_i hg
        simp only [Bool.and_eq_true, decide_eq_true_eq, beq_iff_eq] at hg
        cases h
        have hph : s.ph d = .waitTarget := hg.1.1.1.1.2
        simp only [devMeasure, St.cu, St.ph, getD_setAt, hl, and_true, if_true] at hcu hph ⊢
        simp only [hcu, hph]
        have hf' : s.failed[d]?.getD false = false := by simpa using hf
        simp [hf', rank]
      · simp at h
    · simp only [step, hcu] at h
      split at h
      · rename_i hg
        simp only [Bool.and_eq_true, decide_eq_true_eq, beq_iff_eq, Bool.not_eq_true'] at hg
        cases h
        have hph : s.ph d = .ejecting := hg.1.1.2
        simp only [devMeasure, St.cu, St.ph, getD_setAt, hl, and_true, if_true] at hcu hph ⊢
        simp only [hcu, hph]
        have hf' : s.failed[d]?.getD false = false := by simpa using hf
        simp [hf', rank]
      · simp at h
    · simp only [step] at h
      split at h
      · rename_i hg
        simp only [Bool.and_eq_true, decide_eq_true_eq, beq_iff_eq] at hg
        cases h
        have hph : s.ph d = .ballLeft := hg.2
        simp only [devMeasure, St.cu, St.ph, getD_setAt, hl, and_true, if_true] at hcu hph ⊢
        simp only [hcu, hph]
        have hf' : s.failed[d]?.getD false = false := by simpa using hf
        simp [hf', rank]
      · simp at h

/-- — and a retryable failure uses up one of the remaining attempts: with `max_eject_attempts > 0` it decreases the
work left although the attempt starts over, so an eject cannot loop for ever. -/
theorem progress_measure_failure (c : Cfg) (s s' : St) (d n : Nat)
    (hl : d < s.tries.length ∧ d < s.failed.length) (hmax : c.maxOf d > 0)
    (h : step c s (.ejectFailedReturn d n) = some s' ∨ step c s (.ejectFailedStuck d n) = some s') :
    devMeasure c s' d < devMeasure c s d := by
  have key : ∀ ph, (ph = .ejecting ∨ ph = .failedConfirm) → failCommon c s d n ph = some s' →
      devMeasure c s' d < devMeasure c s d := by
    intro ph hph hfc
    unfold failCommon at hfc
    split at hfc
    · rename_i t hcu
      split at hfc
      · rename_i hg
        simp only [Bool.and_eq_true, Bool.or_eq_true, decide_eq_true_eq, beq_iff_eq, Bool.not_eq_true'] at hg
        have hp : s.ph d = ph := hg.1.1.1.2
        have hnf : s.failed.getD d false = false := hg.1.1.2
        have hfin : ∀ s2 : St, s2.queue = s.queue → s2.cur = s.cur → s2.phase = s.phase → s2.tries = setAt s.tries d n →
            s2.failed = setAt s.failed d true → devMeasure c s2 d < devMeasure c s d := by
          intro s2 e1 e2 e3 e4 e5
          simp only [devMeasure, St.cu, St.ph, e1, e2, e3, e4, e5, getD_setAt, hl.1, hl.2, and_true, if_true] at hcu hp ⊢
          simp only [hcu, hp, hnf]
          have h1 : n = s.tries.getD d 0 + 1 := by omega
          have h2 : n < c.maxOf d := by omega
          generalize s.tries.getD d 0 = k at *
          subst h1
          have hk : c.maxOf d - k = (c.maxOf d - (k + 1)) + 1 := by omega
          generalize c.maxOf d - (k + 1) = x at *
          rcases hph with rfl | rfl <;> simp [rank, hk, Nat.add_mul] <;> omega
        split at hfc
        · split at hfc
          · cases hfc; exact hfin _ rfl rfl rfl rfl rfl
          · simp at hfc
        · cases hfc; exact hfin _ rfl rfl rfl rfl rfl
      · simp at hfc
    · simp at hfc
  rcases h with h | h
  · exact key _ (Or.inr rfl) (by simpa [step] using h)
  · exact key _ (Or.inl rfl) (by simpa [step] using h)

/-! ### mechanical / player-controlled ejects -/

/-- **a manual eject with no request is adopted, not lost**: when the player lets go of a ball that rests in an idle mechanical
device (nothing queued, no eject in progress), the enabled transition `manualLeft d t` moves the ball's *claim* from the
device to the target (`available_balls` −1 / +1, so the sum over all nodes is unchanged), makes the device track an eject
towards `t` (`_current_target`), registers the ball as incoming at `t`, and keeps it in the belief ledger (`balls`, `counted`,
in-flight and `num_balls_known` unchanged: it is still counted in the device until the eject is confirmed).  On the
unrepaired code the claim was duplicated instead of moved (fixed: 336f23e). -/
theorem manual_eject_adopted (c : Cfg) (s s' : St) (d t : Nat) (hne : d ≠ t) (hla : s.avail.length = c.n)
    (hlc : s.cur.length = c.n) (hli : s.inc.length = c.n) (h : step c s (.manualLeft d t) = some s') :
    s'.a d = s.a d - 1 ∧ s'.a t = s.a t + 1 ∧ total s'.avail = total s.avail ∧ s'.cu d = some t ∧
    s'.incOf t = s.incOf t ++ [d] ∧ s'.balls = s.balls ∧ s'.counted = s.counted ∧ s'.inflight = s.inflight ∧
    s'.known = s.known ∧ s'.queue = s.queue ∧ s'.reqs = s.reqs := by
  simp only [step] at h
  split at h
  · rename_i hg
    simp only [Bool.and_eq_true, decide_eq_true_eq, beq_iff_eq] at hg
    have hd : d < c.n := hg.1.1.1.1.1.1.1.1.1.1
    have ht : t < c.n := hg.1.1.1.1.1.1.1.1.1.2
    cases h
    refine ⟨?_, ?_, ?_, ?_, ?_, rfl, rfl, rfl, rfl, rfl, rfl⟩
    · simp only [St.a, getD_bump, length_bump, hla, hd, ht, and_true, hne, if_false, if_true]; omega
    · simp only [St.a, getD_bump, length_bump, hla, hd, ht, and_true, Ne.symm hne, if_false, if_true]
    · rw [total_bump2 _ _ _ _ _ (by omega) (by omega)]; omega
    · simp only [St.cu, getD_setAt, hlc, hd, and_true, if_true]
    · simp only [St.incOf, getD_setAt, hli, ht, and_true, if_true]
  · simp at h

/-- **no stuck manual eject**: while such an adopted eject waits for its confirmation (device still `idle`, target set) the
confirm window can always close (`manualTimeout`), after which the ordinary late-confirm / ball-returned transitions apply; -/
theorem manual_eject_can_time_out (c : Cfg) (s : St) (d t : Nat) (hd : d < c.n) (hpf : c.isPf d = false)
    (hm : s.man d = true) (hp : s.ph d = .idle) (hc : s.cu d = some t) (hb : s.b d > 0) :
    ∃ s', step c s (.manualTimeout d) = some s' ∧ s'.phase = setAt s.phase d .failedConfirm ∧ s'.cur = s.cur :=
  ⟨{ s with phase := setAt s.phase d .failedConfirm, balls := bump s.balls d (-1), inflight := s.inflight + 1 },
   by simp [step, hd, hpf, hm, hp, hc, hb], rfl, rfl⟩

/-- — and when the plunged ball comes back (`manualReturn`) the request is **kept and retried**: the device's target and its
queue are unchanged, the attempt counter starts at 0, and the eject loop's `waitTarget` (which credits the ball back to the
device) is enabled right away.  On the unrepaired code the device hung here for ever with its count lock held (fixed: 3f8a4e5). -/
theorem manual_return_is_retried (c : Cfg) (s s' : St) (d : Nat) (hlf : s.failed.length = c.n) (hlt : s.tries.length = c.n)
    (h : step c s (.manualReturn d) = some s') :
    s'.cur = s.cur ∧ s'.tries.getD d 0 = 0 ∧ s'.queue = s.queue ∧ (step c s' (.waitTarget d)).isSome = true := by
  simp only [step] at h
  split at h
  · rename_i t hcu
    split at h
    · rename_i hg
      simp only [Bool.and_eq_true, decide_eq_true_eq, beq_iff_eq, Bool.not_eq_true'] at hg
      have hd : d < c.n := hg.1.1.1.1.1.1.1.1
      have hpf : c.isPf d = false := hg.1.1.1.1.1.2
      have hph : s.ph d = .failedConfirm := hg.1.1.1.2
      have hbc : s.b d < s.c d := hg.2
      have hs' := (Option.some.inj h).symm
      have e1 : s'.phase = s.phase := by rw [hs']
      have e2 : s'.balls = s.balls := by rw [hs']
      have e3 : s'.counted = s.counted := by rw [hs']
      have e4 : s'.failed = setAt s.failed d true := by rw [hs']
      have e5 : s'.tries = setAt s.tries d 0 := by rw [hs']
      have e6 : s'.cur = s.cur := by rw [hs']
      have e7 : s'.queue = s.queue := by rw [hs']
      have hph' : s'.ph d = .failedConfirm := by simpa [St.ph, e1] using hph
      have hfa : s'.failed.getD d false = true := by rw [e4, getD_setAt]; simp [hlf, hd]
      have hcc : canCredit s' d = true := by
        simp only [canCredit, St.b, St.c, e2, e3, Bool.or_eq_true, decide_eq_true_eq]
        exact Or.inr hbc
      refine ⟨e6, by rw [e5, getD_setAt]; simp [hlt, hd], e7, ?_⟩
      have hfa' : s'.failed[d]?.getD false = true := by simpa using hfa
      simp [step, hd, hpf, hph', hcc, hfa']
    · simp at h
  · simp at h

/-- the hypotheses are satisfiable: a ball rests, claimed, in an idle mechanical plunger (node 1, playfield 2); the player
plunges it, the confirm window closes, the ball rolls back, the eject loop takes over and the ball is plunged again -/
example : (run { n := 3, pf := [false, false, true], cap := [3, 1, 0], maxT := [3, 0, 0], edges := [(0, 1), (1, 2)], missing := 2,
                 mech := [false, true, false] }
    (initSt { n := 3, pf := [false, false, true], cap := [3, 1, 0], maxT := [3, 0, 0], edges := [(0, 1), (1, 2)], missing := 2,
              mech := [false, true, false] } [1, 1, 0])
    [.manualLeft 1 2, .manualTimeout 1, .manualReturn 1, .waitTarget 1, .attempt 1 2 0, .ejectStart 1 2, .ballLeft 1,
     .confirm 1 2]).map (fun s => (s.balls, s.avail, s.inflight, s.known, s.delivered)) = some ([1, 0, 1], [1, 0, 1], 0, 2, 1) := by
  decide

/-- the measure is meaningful: a fresh eject of a device with 3 attempts starts at 29 and a first failure leaves 24 -/
example : devMeasure { n := 2, pf := [false, true], cap := [3, 0], maxT := [3, 0], edges := [(0, 1)], missing := 1 }
    { (initSt { n := 2, pf := [false, true], cap := [3, 0], maxT := [3, 0], edges := [(0, 1)], missing := 1 } [1, 0]) with
      cur := [some 1, none], phase := [.waitTarget, .idle] } 0 = 29 := by decide

/-! ## Game-level requests: ball start, ball save (eject_delay), multiball — the promise ledger (Model/BallPromise.lean) -/

section Promise
open MpfVerif.BallPromise

/-- **no announced ball is dropped between the announcement and the playfield**: for every history of ball starts,
multiball starts / add-a-balls / shoot-agains, ball saves (with any `eject_delay`) and delay expiries, every ball announced
to the player has either been requested from the playfield (`Playfield.add_ball`) or sits in a delayed `_add_balls` call that
is still pending (`over` counts the balls a multiball asked for beyond what `balls_in_play` could hold: the ledger is an
equation, and in particular `promised ≤ requested + pending`). -/
theorem promises_requested_or_pending (d : Nat) (ops : List BallPromise.Op) (s : BallPromise.St)
    (h : BallPromise.run { delay := d } ops = some s) :
    s.promised + s.over = s.requested + BallPromise.total s.pending :=
  run_inv ops { delay := d } s (by simp [BallPromise.Inv, BallPromise.total]) h

/-- ... hence once no delayed eject is pending, every ball ever announced has been requested for the playfield (from there
on the request is the ball ledger's: `no_stuck_state`, `progress_measure`). -/
theorem all_delays_fired_all_requested (d : Nat) (ops : List BallPromise.Op) (s : BallPromise.St)
    (h : BallPromise.run { delay := d } ops = some s) (hp : s.pending = []) :
    s.promised ≤ s.requested ∧ (s.over = 0 → s.promised = s.requested) := by
  have := promises_requested_or_pending d ops s h
  simp only [hp, BallPromise.total] at this
  omega

/-- a pending delayed eject can always fire (nothing in the ball save disables it), and firing it requests exactly the
balls that were announced with it. -/
theorem pending_save_can_fire (s : BallPromise.St) (k : Nat) (r : List Nat) (h : s.pending = k :: r) :
    BallPromise.step s (.fire k) = some { s with requested := s.requested + k, pending := r } := by
  simp [BallPromise.step, h, removeFirst_head]

/-- **the pending list drains**: letting the pending delays fire one after the other (each fires: C13) is a run of the model
that ends with nothing pending and, from any state satisfying the ledger equation, with `promised + over = requested`. -/
theorem pending_saves_drain (l : List Nat) (s : BallPromise.St) (h : s.pending = l) :
    BallPromise.run s (l.map BallPromise.Op.fire) = some (fireAll s) ∧ (fireAll s).pending = [] ∧
    (s.promised + s.over = s.requested + BallPromise.total s.pending →
      (fireAll s).promised + (fireAll s).over = (fireAll s).requested) := by
  refine ⟨?_, rfl, fun hi => by simpa [fireAll] using hi⟩
  induction l generalizing s with
  | nil => cases s; simp_all [BallPromise.run, fireAll, BallPromise.total]
  | cons k r ih =>
    simp only [List.map_cons, BallPromise.run, pending_save_can_fire s k r h]
    rw [ih _ rfl]
    simp [fireAll, h, BallPromise.total, Nat.add_assoc]

/-- the seeded defect as a witness: were the delayed eject added under a NAME (a second `delay.add` with that name replaces
the first), two saves inside one eject_delay window would leave one announced ball that is never requested. -/
theorem named_delay_loses_save_witness :
    (runNamed { delay := 2000 } [.save 1, .save 1, .fire 1]).map (fun s => (s.promised, s.requested, s.pending)) =
      some (2, 1, []) := by decide

/-- non-vacuity: ball start, multiball add, two saves inside one window, both delays fire, four balls delivered -/
example : (BallPromise.run { delay := 2000 } [.promise 1, .promise 1, .overask 1, .save 1, .save 1, .fire 1, .fire 1, .deliver, .deliver,
    .deliver, .deliver]).map (fun s => (s.promised, s.over, s.requested, s.pending, s.delivered)) = some (4, 1, 5, [], 4) := by decide

end Promise

end MpfVerif.C05
