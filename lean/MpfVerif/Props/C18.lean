import MpfVerif.Lemmas.LogicBlock
import MpfVerif.Lemmas.LogicBlockGen
import MpfVerif.Lemmas.StateMachine
/-!
# C18 — logic blocks count, accrue and sequence exactly as specified

Property theorems only (model: `Model/LogicBlock.lean`, helper lemmas: `Lemmas/LogicBlock.lean`).  Every theorem
quantifies over all configurations `c` and all states `s` / all op sequences; nothing is assumed about reachability
unless stated.  Events are read off the trace the model returns (`run` / `xrun`), i.e. from what the real device posts.
-/
namespace MpfVerif.C18
open MpfVerif.LogicBlock

/-- total of a per-step count over a trace -/
def total (f : List Obs → Nat) (t : List (Op × List Obs)) : Nat := (t.map (fun x => f x.2)).sum

/-- number of steps of `ops`, started in `s`, at which `p state op` holds -/
def countSteps (c : Cfg) (p : St → Op → Bool) : St → List Op → Nat
  | _, [] => 0
  | s, op :: r => (if p s op then 1 else 0) + countSteps c p (step c s op).1 r

/-- **Hit events**: in every state, for every op, the block posts exactly one hit event if the op is a hit it accepts
(counter: block present, enabled, outside the multiple-hit window; accrual: enabled and the step not yet set; sequence:
enabled and the step is the one it waits for) and none otherwise — so over any op sequence the number of hit events
equals the number of accepted hits. -/
theorem hit_event_per_accepted_hit (c : Cfg) (s : St) (ops : List Op) :
    total nHit (run c s ops).2 = countSteps c (acceptedHit c) s ops := by
  induction ops generalizing s with
  | nil => rfl
  | cons op r ih =>
    simp only [run, total, List.map_cons, List.sum_cons, countSteps]
    rw [step_nHit]
    exact congrArg _ (ih _)

/-- a counter hit while disabled, absent or inside the hit window changes nothing and posts nothing -/
theorem rejected_hit_is_silent (c : Cfg) (s : St) (h : accepted s = false) : step c s .count = (s, []) :=
  count_rejected c s h

/-- **Counter value**: for every counter configuration and every op sequence from the initial state, as long as the
block is present its value equals the ledger kept from the outside — `base + interval·direction·hits` where `hits` is
the number of hit events (= accepted hits, previous theorem) since the last reset (reset / restart op, timeout event,
completion of a `reset_on_complete` block, mode start) and `base` is the start value adjusted by the explicit
add / subtract / jump ops since then. -/
theorem counter_value (c : Cfg) (ops : List Op) (hk : c.kind = .counter)
    (hl : (run c (init c) ops).1.loaded = true) :
    (run c (init c) ops).1.value = (ledgerRun c ⟨c.start, 0⟩ (run c (init c) ops).2).value c := by
  have key : ∀ (ops : List Op) (s : St) (l : Ledger), (s.loaded = true → s.value = l.value c) →
      (run c s ops).1.loaded = true → (run c s ops).1.value = (ledgerRun c l (run c s ops).2).value c := by
    intro ops
    induction ops with
    | nil => intro s l inv hl; simpa [run, ledgerRun] using inv hl
    | cons op r ih =>
      intro s l inv hl
      simp only [run, ledgerRun] at hl ⊢
      exact ih _ _ (fun h => ledger_step c s l op hk inv h) hl
  exact key ops (init c) ⟨c.start, 0⟩ (fun _ => by simp [init, startVal, hk, Ledger.value]) hl

/-- without add / subtract / jump the ledger is literally `start + interval·direction·(accepted hits since the last
reset)`: the base never moves -/
theorem ledger_base_is_start (c : Cfg) (t : List (Op × List Obs)) (l : Ledger) (hb : l.base = c.start)
    (hno : ∀ x ∈ t, ∀ n, x.1 ≠ .add n ∧ x.1 ≠ .sub n ∧ x.1 ≠ .set n) : (ledgerRun c l t).base = c.start := by
  induction t generalizing l with
  | nil => exact hb
  | cons x r ih =>
    simp only [ledgerRun]
    apply ih
    · obtain ⟨op, obs⟩ := x
      have h := hno (op, obs) List.mem_cons_self
      unfold ledgerStep
      split
      · rfl
      · cases op <;> simp_all
        split <;> simp_all
    · intro y hy; exact hno y (List.mem_cons_of_mem _ hy)

/-- **Completion exactly once, at the moment the goal is reached**: in every state and for every op the completion
event is posted exactly once if this op reaches the goal (`reaches`: an accepted hit / an add, subtract or jump whose
new value meets `count_complete_value` in the counting direction; the accrual hit that sets the last open step; the
sequence hit on the awaited last step) while the block is not already completed, and not at all otherwise — so over any
op sequence the number of completion events equals the number of such steps: never twice for one completion, never late. -/
theorem complete_exactly_once_per_completion (c : Cfg) (s : St) (ops : List Op) :
    total nComplete (run c s ops).2 = countSteps c (fun s op => reaches c s op && !s.completed) s ops := by
  induction ops generalizing s with
  | nil => rfl
  | cons op r ih =>
    simp only [run, total, List.map_cons, List.sum_cons, countSteps]
    rw [step_nComplete]
    exact congrArg _ (ih _)

/-- the single-step form: at most one completion event per op, and exactly when the goal is reached by this op -/
theorem complete_at_the_reaching_step (c : Cfg) (s : St) (op : Op) :
    nComplete (step c s op).2 = (if reaches c s op && !s.completed then 1 else 0) := step_nComplete c s op

/-- **Then resets or disables**: right after a step that completed the block — with `reset_on_complete` the value is
back at the start value, the block is not completed and (unless also disabled) its timeout runs anew; without it the
block stays completed and its timeout is stopped; with `disable_on_complete` it is disabled with no timeout pending,
otherwise its enabled state is unchanged. -/
theorem then_resets_or_disables (c : Cfg) (s : St) (op : Op) (hr : reaches c s op = true) (hc : s.completed = false) :
    PostCompletion c s (step c s op).1 := step_post c s op hr hc

/-- **Accrual, any order**: for an enabled accrual, hits on any list of steps that does not yet cover all steps leave
exactly those steps set and post no completion; the result does not depend on the order of the hits.  (The hit that
sets the last open step then completes it: `complete_at_the_reaching_step`.) -/
theorem accrual_any_order (c : Cfg) (s : St) (ks ks' : List Nat) (hk : c.kind = .accrual) (hl : s.loaded = true)
    (he : s.enabled = true) (hp : ks.Perm ks') (hn : allTrue (marks s.flags ks) = false) :
    (run c s (ks.map Op.hit)).1 = { s with flags := marks s.flags ks } ∧
    (run c s (ks'.map Op.hit)).1 = (run c s (ks.map Op.hit)).1 ∧
    total nComplete (run c s (ks.map Op.hit)).2 = 0 ∧ total nComplete (run c s (ks'.map Op.hit)).2 = 0 := by
  have h1 := accrual_run c s ks hk hl he hn
  have h2 := accrual_run c s ks' hk hl he (by rw [← marks_perm s.flags ks ks' hp]; exact hn)
  refine ⟨h1.1, ?_, h1.2, h2.2⟩
  rw [h1.1, h2.1, marks_perm s.flags ks ks' hp]

/-- **Sequence, strict order**: a hit on any step other than the awaited one changes nothing and posts nothing; over
any list of step hits an enabled sequence advances exactly along the in-order matches (`seqAdv`) and posts no
completion before the last step. -/
theorem sequence_strict_order (c : Cfg) (s : St) (ks : List Nat) (hk : c.kind = .sequence) (hl : s.loaded = true)
    (he : s.enabled = true) (hn : seqAdv s.value ks < c.steps) :
    (∀ k : Nat, (k : Int) ≠ s.value → step c s (.hit k) = (s, [])) ∧
    (run c s (ks.map Op.hit)).1 = { s with value := seqAdv s.value ks } ∧
    total nComplete (run c s (ks.map Op.hit)).2 = 0 :=
  ⟨fun k hv => sequence_wrong_step c s k hk hv, (sequence_run c s ks hk hl he hn).1, (sequence_run c s ks hk hl he hn).2⟩

/-- total of a per-step count over an extended trace -/
def xtotal (f : List Obs → Nat) (t : List (XOp × List Obs)) : Nat := (t.map (fun x => f x.2)).sum

/-- number of steps of `ops`, started in `y`, at which `p system op` holds -/
def xcountSteps (p : Sys → XOp → Bool) : Sys → List XOp → Nat
  | _, [] => 0
  | y, op :: r => (if p y op then 1 else 0) + xcountSteps p (xstep y op).1 r

/-- **Hit events, extended op set**: over any sequence of ops - hits arriving directly or as delayed control calls,
template variables changing, modes stopping and starting for any player, callbacks in any order - the number of hit
events posted equals the number of accepted hits (`acceptedX`: the op runs a hit method now - a delayed one only at
its due instant - and the block is present, enabled and outside its window / the step is open / the awaited one). -/
theorem xhit_event_per_accepted_hit (y : Sys) (ops : List XOp) :
    xtotal nHit (xrun y ops).2 = xcountSteps acceptedX y ops := by
  induction ops generalizing y with
  | nil => rfl
  | cons op r ih =>
    simp only [xrun, xtotal, List.map_cons, List.sum_cons, xcountSteps]
    rw [xstep_nHit]
    exact congrArg _ (ih _)

/-- **Completion exactly once, extended op set**: the number of completion events equals the number of steps that
reach the goal - as the `count_complete_value` template evaluates at that very step - while the block is not
completed; a delayed call counts at the instant it runs, a refused or dropped one never. -/
theorem xcomplete_exactly_once_per_completion (y : Sys) (ops : List XOp) :
    xtotal nComplete (xrun y ops).2 = xcountSteps reachesX y ops := by
  induction ops generalizing y with
  | nil => rfl
  | cons op r ih =>
    simp only [xrun, xtotal, List.map_cons, List.sum_cons, xcountSteps]
    rw [xstep_nComplete]
    exact congrArg _ (ih _)

/-- **Counter value, extended op set, with template re-evaluation**: for every counter configuration, machine-wide or
mode-owned, persisted or not, and every op sequence from boot, whenever the block is present its value equals the
ledger kept from outside: `base + interval·direction·hits`, where `hits` counts the hit events since the last reset
(reset / restart - direct or delayed -, timeout, completion with `reset_on_complete`, fresh mode start) and `base` is
what the `starting_count` template evaluated to AT that reset (`setStart` ops are remembered, they do not move the
value), adjusted by add / subtract / jump since; after a `persist_state` restore the base is the value the restore
announces (it is the stored one: `persist_restores`). -/
theorem xcounter_value (c : Cfg) (ps bt : Bool) (ops : List XOp) (hk : c.kind = .counter)
    (hl : (xrun (xinit c ps bt) ops).1.s.loaded = true) :
    (xrun (xinit c ps bt) ops).1.s.value =
      (xledgerRun c ⟨⟨c.start, 0⟩, c.start⟩ (xrun (xinit c ps bt) ops).2).l.value c := by
  have key : ∀ (ops : List XOp) (y : Sys) (xl : XLedger), LedgerInv c y xl →
      LedgerInv c (xrun y ops).1 (xledgerRun c xl (xrun y ops).2) := by
    intro ops
    induction ops with
    | nil => intro y xl inv; exact inv
    | cons op r ih => intro y xl inv; exact ih _ _ (xledger_step c y xl op inv)
  have i0 : LedgerInv c (xinit c ps bt) ⟨⟨c.start, 0⟩, c.start⟩ :=
    ⟨hk, rfl, rfl, rfl, rfl, fun h => by
      cases bt <;> simp [xinit, init, unload, startVal, hk, Ledger.value] at h ⊢⟩
  exact (key ops _ _ i0).value hl

/-- **The window reopens** (extended op set): after any op sequence from boot a pending hit window has its deadline
not in the past and at most `multiple_hit_window` ticks away (no op can prolong it); the clock cannot pass the
deadline while the window is pending, and the window callback, run at the deadline, opens it - hits are accepted again
by `xhit_event_per_accepted_hit`. -/
theorem window_reopens (c : Cfg) (ps bt : Bool) (ops : List XOp) (d : Nat)
    (hw : (xrun (xinit c ps bt) ops).1.s.windowUntil = some d) :
    let y := (xrun (xinit c ps bt) ops).1
    y.s.now ≤ d ∧ d ≤ y.s.now + y.c.window ∧
    (d = y.s.now → (xstep y (.core .clock)).1 = y ∧ (xstep y (.core .fireW)).1.s.windowUntil = none) := by
  intro y
  have i0 : WindowOk (xinit c ps bt).c (xinit c ps bt).s := by
    cases bt <;> simp [xinit, init, unload, WindowOk]
  have inv : WindowOk y.c y.s := xrun_window _ ops i0
  have b := inv.2 d hw
  have hl : y.s.loaded = true := by
    cases h : y.s.loaded
    · rw [inv.1 h] at hw; exact absurd hw (by simp)
    · rfl
  refine ⟨b.1, b.2, fun hd => ?_⟩
  subst hd
  have wd := window_deadline y.c y.s hl hw
  constructor
  · simp only [xstep]; split
    · rfl
    · rw [wd.1]
  · simp only [xstep]; exact wd.2

/-- **A delayed control call runs at its due instant, once, or never**: (1) from boot on no pending call is ever in
the past; (2) the clock does not move while a call is due; (3) a call that is not due now cannot run; (4) a call that
runs is exactly the block method of its event on the state and templates as they are THEN, and is removed from the
pending calls; (5) when the block's mode stops, nothing stays pending. -/
theorem delayed_call_at_due_instant_once (c : Cfg) (ps bt : Bool) (ops : List XOp) :
    let y := (xrun (xinit c ps bt) ops).1
    (∀ x ∈ y.pending, y.s.now ≤ x.1) ∧
    (dueNow y.s.now y.pending = true → xstep y (.core .clock) = (y, [Obs.refused])) ∧
    (∀ a k, takeDue y.s.now a y.pending = none → xstep y (.fireD a k) = (y, [Obs.refused])) ∧
    (∀ a k rest, takeDue y.s.now a y.pending = some rest →
      xstep y (.fireD a k) = ({ y with s := (step y.c y.s (actOp a k)).1, pending := rest }, (step y.c y.s (actOp a k)).2) ∧
      rest.length + 1 = y.pending.length) ∧
    (y.s.loaded = true → (xstep y .stopMode).1.pending = []) := by
  intro y
  have i0 : PendingOk (xinit c ps bt) := by intro x hx; simp [xinit] at hx
  refine ⟨xrun_pending _ ops i0, fun h => by simp [xstep, h], fun a k h => by simp [xstep, h], fun a k rest h => ?_, fun h => ?_⟩
  · exact ⟨by simp [xstep, h], (takeDue_sub _ _ _ _ h).2⟩
  · simp [xstep, stopMode, h]

/-- **persist_state restores per player**: in every state, when the mode of a persisted block stops and later starts
again for the same player - whatever happened for other players in between is covered by `other_players_untouched` -
the block presents exactly the enabled / completed / value it had, posts one `updated` event and no hit or completion
event, has no hit window and no timeout pending; a completed block is still completed on the next ball. -/
theorem persist_restores (y : Sys) (hp : y.persist = true) (hl : y.s.loaded = true) :
    let y1 := (xstep y .stopMode).1
    lookupSnap y.cur y1.saved = some (snapOf y.s) ∧
    ∀ y2 : Sys, y2.persist = true → y2.s.loaded = false → lookupSnap y.cur y2.saved = some (snapOf y.s) →
      snapOf (xstep y2 (.startMode y.cur)).1.s = snapOf y.s ∧ (xstep y2 (.startMode y.cur)).1.s.loaded = true ∧
      (xstep y2 (.startMode y.cur)).1.s.windowUntil = none ∧ (xstep y2 (.startMode y.cur)).1.s.timeoutDue = none ∧
      (xstep y2 (.startMode y.cur)).2 = [upd (xstep y2 (.startMode y.cur)).1.s] := by
  refine ⟨by simp [xstep, stopMode, hl, hp, lookupSnap], fun y2 h2 hl2 hs => ?_⟩
  simp [xstep, startMode, hl2, h2, hs, snapOf]

/-- **Players are isolated**: within a game (every op except the end of the game, which removes the players
themselves - `new_game_starts_fresh`) no op changes the stored state of a player who is not up. -/
theorem other_players_untouched (y : Sys) (x : XOp) (q : Nat) (hq : q ≠ y.cur) (hg : x ≠ .newGame) :
    lookupSnap q (xstep y x).1.saved = lookupSnap q y.saved := by
  cases x with
  | newGame => exact absurd rfl hg
  | ctlNone => rfl
  | core o =>
    by_cases hc : o = .clock
    · subst hc; simp only [xstep]; split <;> rfl
    · by_cases hu : o = .unload
      · subst hu; simp only [xstep, stopMode]; split; rfl; split
        · simp [lookupSnap, Ne.symm hq]
        · rfl
      · by_cases hl : o = .load
        · subst hl; simp only [xstep]; rw [(startMode_frame y y.cur).2.2]
        · rw [xstep_core_other y o hc hu hl]
  | dpost a d => simp only [xstep]; split <;> rfl
  | fireD a k =>
    simp only [xstep]
    rcases Option.eq_none_or_eq_some (takeDue y.s.now a y.pending) with ht | ⟨rest, ht⟩ <;> simp only [ht]
  | setStart n => rfl
  | setGoal g => rfl
  | stopMode =>
    simp only [xstep, stopMode]; split; rfl; split
    · simp [lookupSnap, Ne.symm hq]
    · rfl
  | startMode p => simp only [xstep]; rw [(startMode_frame y p).2.2]

/-- **Game end, second game**: after the game ended (block's mode stopped) nobody has a stored state any more, so in
the next game every player - whatever the previous game left - gets a fresh block: start value as the template
evaluates then, not completed, enabled iff `start_enabled`, timeout armed iff enabled; while a mode that merely
stops and starts again within the game (next ball, extra ball: `startMode` for the same player) restores
(`persist_restores`) and does NOT arm the timeout of a restored enabled block (the model follows the code). -/
theorem new_game_starts_fresh (y : Sys) (p : Nat) (hl : y.s.loaded = false) :
    let y1 := (xstep y .newGame).1
    (∀ q, lookupSnap q y1.saved = none) ∧ y1.cur = 0 ∧ y1.s = y.s ∧ y1.pending = y.pending ∧
    (xstep y1 (.startMode p)).1.s = (load y.c y.s).1 ∧ (xstep y1 (.startMode p)).2 = (load y.c y.s).2 ∧
    (load y.c y.s).1.completed = false ∧ (load y.c y.s).1.enabled = y.c.startEnabled ∧
    (load y.c y.s).1.timeoutDue = (if y.c.startEnabled && decide (y.c.timeout ≠ 0) then some (y.s.now + y.c.timeout) else none) := by
  refine ⟨fun q => by simp [xstep, hl, lookupSnap], by simp [xstep, hl], by simp [xstep, hl], by simp [xstep, hl],
    by simp [xstep, startMode, hl, lookupSnap], by simp [xstep, startMode, hl, lookupSnap], ?_, ?_, ?_⟩
  · cases h : y.c.startEnabled <;> simp [load, enable, timerStart, h] <;> split <;> rfl
  · cases h : y.c.startEnabled <;> simp [load, enable, timerStart, h] <;> split <;> rfl
  · cases h : y.c.startEnabled <;> simp [load, enable, timerStart, h]
    split <;> simp_all

/-- a restored enabled block has no timeout pending although `logic_block_timeout` is configured (kernel-evaluated
witness of the behaviour described in `persist_restores`; observed on the real device, reported, not a clause of C18) -/
theorem restored_block_timeout_not_rearmed_witness :
    let c : Cfg := { kind := .counter, start := 0, goal := some 9, timeout := 4, startEnabled := true }
    let y := (xrun (xinit c true false) [.startMode 0, .core .count, .stopMode, .startMode 0]).1
    y.s.enabled = true ∧ y.s.value = 1 ∧ y.s.timeoutDue = none := by decide

/-- **advance_random is a hit on an open step**: whatever open step the random choice names, the effect is that of
a hit on that step (so `accrual_any_order` and the completion theorems cover it); a step that is already set is never
hit again. -/
theorem advance_random_hits_an_open_step (c : Cfg) (s : St) (k : Nat) (hk : c.kind = .accrual) (hl : s.loaded = true) :
    (getFlag s.flags k = false → step c s (.advr k) = step c s (.hit k)) ∧
    (getFlag s.flags k = true → step c s (.advr k) = (s, [])) := by
  constructor <;> intro hg <;> simp [step, stepLoaded, hl, hk, hg]

/-! ## the hand model of a counter is what the source says (translator tie) -/

/-- a counter reached from boot by any op sequence never carries accrual flags (the side condition of the tie) -/
theorem counter_flags_stay_empty (c : Cfg) (ops : List Op) (hk : c.kind = .counter) : (run c (init c) ops).1.flags = [] := by
  have key : ∀ (ops : List Op) (s : St), s.flags = [] → (run c s ops).1.flags = [] := by
    intro ops
    induction ops with
    | nil => intro s h; exact h
    | cons op r ih => intro s h; exact ih _ (counter_step_flags c s op hk h)
  exact key ops _ (by simp [init, startFlags, hk])

/-- **The model's counter methods are the source's** (`mpf/devices/logic_blocks.py` as it is now, regenerated into
`Gen/LogicBlockOps.lean` on every check): in every state of a present counter, running the *generated* program of
`Counter.count`, `LogicBlock.enable / disable / reset / restart / complete`, `Counter.check_complete`,
`LogicBlock._logic_block_timeout` (at its deadline, the delay manager having removed the delay) and
`Counter.stop_ignoring_hits` (at the window deadline) in the deep embedding - attribute and player-state store,
configuration and templates as data, delays and event posts as a log of effects with their hand-given meaning `applyEff` -
yields exactly the state and exactly the list of posted events that the hand model's `step` computes for the corresponding
op; no logged action is without meaning, no `ignore_hits` is left without its closing delay, nothing raises.  Every theorem
above about `step` / `run` therefore speaks about these methods of the source. -/
theorem counter_methods_refine_source (c : Cfg) (s : St) (hk : c.kind = .counter) (hf : s.flags = []) (hl : s.loaded = true) :
    genRun c s Gen.LogicBlockOps.count [] = (step c s .count, false, false, some .none) ∧
    genRun c s Gen.LogicBlockOps.enable [] = (step c s .enable, false, false, some .none) ∧
    genRun c s Gen.LogicBlockOps.disable [] = (step c s .disable, false, false, some .none) ∧
    genRun c s Gen.LogicBlockOps.reset [] = (step c s .reset, false, false, some .none) ∧
    genRun c s Gen.LogicBlockOps.restart [] = (step c s .restart, false, false, some .none) ∧
    genRun c s Gen.LogicBlockOps.complete [] = (complete c s, false, false, some .none) ∧
    genRun c s Gen.LogicBlockOps.check_complete [] = ((s, []), false, false, some (.bool (goalReached c s.value))) ∧
    (s.timeoutDue = some s.now →
      genRun c { s with timeoutDue := none } Gen.LogicBlockOps.p_logic_block_timeout [] = (step c s .fireT, false, false, some .none)) ∧
    (s.windowUntil = some s.now →
      genRun c s Gen.LogicBlockOps.stop_ignoring_hits [] = (step c s .fireW, false, false, some .none)) := by
  have hs : ∀ o, step c s o = stepLoaded c s o := fun o => step_loaded c s o hl
  refine ⟨?_, ?_, ?_, ?_, ?_, complete_gen c s hk hf, check_complete_gen c s, fun hd => ?_, fun hd => ?_⟩
  · rw [hs]; simp only [stepLoaded, hk]; exact count_gen c s hk hf
  · rw [hs]; exact enable_gen c s
  · rw [hs]; exact disable_gen c s
  · rw [hs]; exact reset_gen c s hk hf
  · rw [hs]; exact restart_gen c s hk hf
  · rw [hs]; exact timeout_gen c s hk hf hd
  · rw [hs]; exact stop_ignoring_gen c s hd

/-- hence, over every op sequence from boot: the `count` of the source, run in the state the sequence leads to, is the
model's `count` step there (the flags side condition is discharged by `counter_flags_stay_empty`) - and in particular,
in the source, a hit on a disabled counter or inside the window writes nothing, posts nothing and arms nothing -/
theorem reachable_count_refines_source (c : Cfg) (ops : List Op) (hk : c.kind = .counter)
    (hl : (run c (init c) ops).1.loaded = true) :
    genRun c (run c (init c) ops).1 Gen.LogicBlockOps.count [] = (step c (run c (init c) ops).1 .count, false, false, some .none) ∧
    (accepted (run c (init c) ops).1 = false →
      genRun c (run c (init c) ops).1 Gen.LogicBlockOps.count [] = (((run c (init c) ops).1, []), false, false, some .none)) := by
  have h := (counter_methods_refine_source c _ hk (counter_flags_stay_empty c ops hk) hl).1
  exact ⟨h, fun ha => by rw [h, count_rejected c _ ha]⟩

/-! ## state machine devices (not named by the property's text: model facts backing the comparison run) -/

/-- **A transition whose source does not match is ignored** (at dispatch start): an event for which no transition has the
current state among its sources changes nothing and posts nothing - in every state, also while the owning mode is not
running. -/
theorem sm_unmatched_event_ignored (c : StateMachine.Cfg) (s : StateMachine.St) (k : Nat)
    (hn : ∀ i, s.cur = some i → ∀ t ∈ c.trans, i ∈ t.src → k ∉ t.events) : StateMachine.step c s (.ev k) = (s, []) := by
  cases hc : s.cur with
  | none => simp [StateMachine.step, hc]
  | some i =>
    simp only [StateMachine.step, hc, StateMachine.no_match i k c.trans 0 (hn i hc), StateMachine.takeAll]
    cases s; simp_all

def smTwo : StateMachine.Cfg :=
  { nStates := 3, onEv := [true, true, true], offEv := [true, true, true], trans := [⟨[0], 1, [0], true⟩, ⟨[0], 2, [0], true⟩] }
def smChain : StateMachine.Cfg :=
  { nStates := 3, onEv := [true, true, true], offEv := [true, true, true], trans := [⟨[0], 1, [0], true⟩, ⟨[1], 2, [0], true⟩] }

/-- observed on the real device and reproduced by the model (kernel-evaluated): with two transitions on one event out of
one state, both handlers run - the second one out of a state that is NOT among its sources (st0 -e0-> st1, then the stale
handler st0 -e0-> st2 fires from st1), while a chain st0 -e0-> st1 -e0-> st2 advances only one state per event. -/
theorem sm_stale_handler_witness :
    (StateMachine.step smTwo (StateMachine.init smTwo true) (.ev 0)).1.cur = some 2 ∧
    (StateMachine.step smTwo (StateMachine.init smTwo true) (.ev 0)).2 =
      [.stopped 0, .transitioning 0, .started 1, .stopped 1, .transitioning 1, .started 2] ∧
    (StateMachine.step smChain (StateMachine.init smChain true) (.ev 0)).1.cur = some 1 := by decide

/-! ## the hypotheses are satisfiable on concrete, non-trivial runs (kernel evaluation) -/

def demo : Cfg := { kind := .counter, start := 2, interval := 1, goal := some 4, window := 2, timeout := 8 }

/-- enable, hit, hit inside the window (ignored), two ticks, window callback, hit (completes: reset + disable) -/
example : (run demo (init demo) [.enable, .count, .count, .clock, .clock, .fireW, .count]).1.value = 2 ∧
    total nHit (run demo (init demo) [.enable, .count, .count, .clock, .clock, .fireW, .count]).2 = 2 ∧
    total nComplete (run demo (init demo) [.enable, .count, .count, .clock, .clock, .fireW, .count]).2 = 1 ∧
    (run demo (init demo) [.enable, .count, .count, .clock, .clock, .fireW, .count]).1.enabled = false := by decide

example : (run demo (init demo) [.enable, .count]).1.windowUntil = some 2 := by decide

/-- the clock waits at the window deadline; a third tick is refused until the window callback has run -/
example : (run demo (init demo) [.enable, .count, .clock, .clock, .clock]).1.now = 2 := by decide

/-- extended ops: a delayed count lands inside the window and is ignored; a delayed one after the window counts;
the goal template is lowered from 9 to 5 and the next hit completes (reset to the start value 2) -/
def xdemo : List XOp :=
  [.setGoal (some 9), .core .enable, .core .count, .dpost .count 1, .dpost .count 3, .core .clock, .fireD .count 0, .core .clock,
   .core .fireW, .core .clock, .fireD .count 0, .setGoal (some 5), .core .clock, .core .clock, .core .fireW, .core .count]
example : xtotal nHit (xrun (xinit demo false true) xdemo).2 = 3 ∧
    xcountSteps acceptedX (xinit demo false true) xdemo = 3 ∧
    xtotal nComplete (xrun (xinit demo false true) xdemo).2 = 1 ∧ xcountSteps reachesX (xinit demo false true) xdemo = 1 ∧
    (xrun (xinit demo false true) xdemo).1.s.value = 2 ∧ (xrun (xinit demo false true) xdemo).1.s.loaded = true := by decide
example : (xrun (xinit demo false true) [.core .enable, .dpost .count 2, .core .clock, .core .clock, .core .clock]).1.s.now = 2 ∧
    dueNow 2 (xrun (xinit demo false true) [.core .enable, .dpost .count 2, .core .clock, .core .clock]).1.pending = true := by
  decide

/-- persist_state, two players: player 0 counts to 3, player 1 gets a fresh block, player 0 gets 3 back -/
def pdemo : Cfg := { kind := .counter, start := 2, goal := some 9, startEnabled := true }
example : (xrun (xinit pdemo true false) [.startMode 0, .core .count, .stopMode, .startMode 1, .core .count, .core .count,
      .stopMode, .startMode 0]).1.s.value = 3 ∧
    (xrun (xinit pdemo true false) [.startMode 0, .core .count, .stopMode, .startMode 1]).1.s.value = 2 ∧
    (xrun (xinit pdemo true false) [.startMode 0, .core .count, .stopMode, .startMode 1]).1.persist = true := by decide

/-- the hypotheses of the tie hold on the demo counter after a non-trivial run -/
example : demo.kind = .counter ∧ (run demo (init demo) [.enable, .count, .clock, .clock, .fireW]).1.flags = [] ∧
    (run demo (init demo) [.enable, .count, .clock, .clock, .fireW]).1.loaded = true ∧
    accepted (run demo (init demo) [.enable, .count, .clock]).1 = false := by decide

def demoAcc : Cfg := { kind := .accrual, steps := 3, startEnabled := true }
example : allTrue (marks (init demoAcc).flags [2, 0]) = false ∧ (init demoAcc).enabled = true := by decide
example : total nComplete (run demoAcc (init demoAcc) [.hit 2, .hit 0, .hit 2, .hit 1]).2 = 1 := by decide
example : total nComplete (run demoAcc (init demoAcc) [.advr 2, .advr 0, .advr 2, .advr 1]).2 = 1 ∧
    getFlag (run demoAcc (init demoAcc) [.advr 2]).1.flags 0 = false := by decide

def demoSeq : Cfg := { kind := .sequence, steps := 3, startEnabled := true }
example : seqAdv (init demoSeq).value [1, 0, 0, 2, 1] = 2 := by decide
example : total nComplete (run demoSeq (init demoSeq) [.hit 1, .hit 0, .hit 0, .hit 2, .hit 1, .hit 2]).2 = 1 := by decide

end MpfVerif.C18
