import MpfVerif.Lemmas.LogicBlock
/-!
# C18 — logic blocks count, accrue and sequence exactly as specified

Property theorems only (model: `Model/LogicBlock.lean`, helper lemmas: `Lemmas/LogicBlock.lean`).  Every theorem
quantifies over all configurations `c` and all states `s` / all op sequences; nothing is assumed about reachability
unless stated.  Events are read off the trace the model returns (`run`), i.e. from what the real device posts.
-/
namespace MpfVerif.C18
open MpfVerif.LogicBlock

/-- total of a per-step count over a trace -/
def total (f : List Obs → Nat) (t : List (Op × List Obs)) : Nat := (t.map (fun x => f x.2)).sum

/-- number of steps of `ops`, started in `s`, at which `p state op` holds -/
def countSteps (c : Cfg) (p : St → Op → Bool) : St → List Op → Nat
  | _, [] => 0
  | s, op :: r => (if p s op then 1 else 0) + countSteps c p (step c s op).1 r

/-- **Hit events**: in every state, for every op, the block posts exactly one hit event if the op is a hit it accepts
(counter: block present, enabled, outside the multiple-hit window; accrual: enabled and the step not yet set; sequence:
enabled and the step is the one it waits for) and none otherwise — so over any op sequence the number of hit events
equals the number of accepted hits. -/
theorem hit_event_per_accepted_hit (c : Cfg) (s : St) (ops : List Op) :
    total nHit (run c s ops).2 = countSteps c (acceptedHit c) s ops := by
  induction ops generalizing s with
  | nil => rfl
  | cons op r ih =>
    simp only [run, total, List.map_cons, List.sum_cons, countSteps]
    rw [step_nHit]
    exact congrArg _ (ih _)

/-- a counter hit while disabled, absent or inside the hit window changes nothing and posts nothing -/
theorem rejected_hit_is_silent (c : Cfg) (s : St) (h : accepted s = false) : step c s .count = (s, []) :=
  count_rejected c s h

/-- **Counter value**: for every counter configuration and every op sequence from the initial state, as long as the
block is present its value equals the ledger kept from the outside — `base + interval·direction·hits` where `hits` is
the number of hit events (= accepted hits, previous theorem) since the last reset (reset / restart op, timeout event,
completion of a `reset_on_complete` block, mode start) and `base` is the start value adjusted by the explicit
add / subtract / jump ops since then. -/
theorem counter_value (c : Cfg) (ops : List Op) (hk : c.kind = .counter)
    (hl : (run c (init c) ops).1.loaded = true) :
    (run c (init c) ops).1.value = (ledgerRun c ⟨c.start, 0⟩ (run c (init c) ops).2).value c := by
  have key : ∀ (ops : List Op) (s : St) (l : Ledger), (s.loaded = true → s.value = l.value c) →
      (run c s ops).1.loaded = true → (run c s ops).1.value = (ledgerRun c l (run c s ops).2).value c := by
    intro ops
    induction ops with
    | nil => intro s l inv hl; simpa [run, ledgerRun] using inv hl
    | cons op r ih =>
      intro s l inv hl
      simp only [run, ledgerRun] at hl ⊢
      exact ih _ _ (fun h => ledger_step c s l op hk inv h) hl
  exact key ops (init c) ⟨c.start, 0⟩ (fun _ => by simp [init, startVal, hk, Ledger.value]) hl

/-- without add / subtract / jump the ledger is literally `start + interval·direction·(accepted hits since the last
reset)`: the base never moves -/
theorem ledger_base_is_start (c : Cfg) (t : List (Op × List Obs)) (l : Ledger) (hb : l.base = c.start)
    (hno : ∀ x ∈ t, ∀ n, x.1 ≠ .add n ∧ x.1 ≠ .sub n ∧ x.1 ≠ .set n) : (ledgerRun c l t).base = c.start := by
  induction t generalizing l with
  | nil => exact hb
  | cons x r ih =>
    simp only [ledgerRun]
    apply ih
    · obtain ⟨op, obs⟩ := x
      have h := hno (op, obs) List.mem_cons_self
      unfold ledgerStep
      split
      · rfl
      · cases op <;> simp_all
        split <;> simp_all
    · intro y hy; exact hno y (List.mem_cons_of_mem _ hy)

/-- **Completion exactly once, at the moment the goal is reached**: in every state and for every op the completion
event is posted exactly once if this op reaches the goal (`reaches`: an accepted hit / an add, subtract or jump whose
new value meets `count_complete_value` in the counting direction; the accrual hit that sets the last open step; the
sequence hit on the awaited last step) while the block is not already completed, and not at all otherwise — so over any
op sequence the number of completion events equals the number of such steps: never twice for one completion, never late. -/
theorem complete_exactly_once_per_completion (c : Cfg) (s : St) (ops : List Op) :
    total nComplete (run c s ops).2 = countSteps c (fun s op => reaches c s op && !s.completed) s ops := by
  induction ops generalizing s with
  | nil => rfl
  | cons op r ih =>
    simp only [run, total, List.map_cons, List.sum_cons, countSteps]
    rw [step_nComplete]
    exact congrArg _ (ih _)

/-- the single-step form: at most one completion event per op, and exactly when the goal is reached by this op -/
theorem complete_at_the_reaching_step (c : Cfg) (s : St) (op : Op) :
    nComplete (step c s op).2 = (if reaches c s op && !s.completed then 1 else 0) := step_nComplete c s op

/-- **Then resets or disables**: right after a step that completed the block — with `reset_on_complete` the value is
back at the start value, the block is not completed and (unless also disabled) its timeout runs anew; without it the
block stays completed and its timeout is stopped; with `disable_on_complete` it is disabled with no timeout pending,
otherwise its enabled state is unchanged. -/
theorem then_resets_or_disables (c : Cfg) (s : St) (op : Op) (hr : reaches c s op = true) (hc : s.completed = false) :
    PostCompletion c s (step c s op).1 := step_post c s op hr hc

/-- **Accrual, any order**: for an enabled accrual, hits on any list of steps that does not yet cover all steps leave
exactly those steps set and post no completion; the result does not depend on the order of the hits.  (The hit that
sets the last open step then completes it: `complete_at_the_reaching_step`.) -/
theorem accrual_any_order (c : Cfg) (s : St) (ks ks' : List Nat) (hk : c.kind = .accrual) (hl : s.loaded = true)
    (he : s.enabled = true) (hp : ks.Perm ks') (hn : allTrue (marks s.flags ks) = false) :
    (run c s (ks.map Op.hit)).1 = { s with flags := marks s.flags ks } ∧
    (run c s (ks'.map Op.hit)).1 = (run c s (ks.map Op.hit)).1 ∧
    total nComplete (run c s (ks.map Op.hit)).2 = 0 ∧ total nComplete (run c s (ks'.map Op.hit)).2 = 0 := by
  have h1 := accrual_run c s ks hk hl he hn
  have h2 := accrual_run c s ks' hk hl he (by rw [← marks_perm s.flags ks ks' hp]; exact hn)
  refine ⟨h1.1, ?_, h1.2, h2.2⟩
  rw [h1.1, h2.1, marks_perm s.flags ks ks' hp]

/-- **Sequence, strict order**: a hit on any step other than the awaited one changes nothing and posts nothing; over
any list of step hits an enabled sequence advances exactly along the in-order matches (`seqAdv`) and posts no
completion before the last step. -/
theorem sequence_strict_order (c : Cfg) (s : St) (ks : List Nat) (hk : c.kind = .sequence) (hl : s.loaded = true)
    (he : s.enabled = true) (hn : seqAdv s.value ks < c.steps) :
    (∀ k : Nat, (k : Int) ≠ s.value → step c s (.hit k) = (s, [])) ∧
    (run c s (ks.map Op.hit)).1 = { s with value := seqAdv s.value ks } ∧
    total nComplete (run c s (ks.map Op.hit)).2 = 0 :=
  ⟨fun k hv => sequence_wrong_step c s k hk hv, (sequence_run c s ks hk hl he hn).1, (sequence_run c s ks hk hl he hn).2⟩

/-- **The window reopens**: after any op sequence from the initial state a pending hit window has its deadline strictly
in the future and at most `multiple_hit_window` ticks away (no op can prolong it), and when the clock reaches the
deadline the window is open again — hits are accepted again by `hit_event_per_accepted_hit`. -/
theorem window_reopens (c : Cfg) (ops : List Op) (d : Nat) (hw : (run c (init c) ops).1.windowUntil = some d) :
    (run c (init c) ops).1.now < d ∧ d ≤ (run c (init c) ops).1.now + c.window ∧
    (ticks c (d - (run c (init c) ops).1.now) (run c (init c) ops).1).1.windowUntil = none := by
  have inv : WindowOk c (run c (init c) ops).1 := run_window c (init c) ops ⟨fun h => by simp [init] at h, fun d h => by simp [init] at h⟩
  have b := inv.2 d hw
  refine ⟨b.1, b.2, ?_⟩
  have hl : (run c (init c) ops).1.loaded = true := by
    cases h : (run c (init c) ops).1.loaded
    · rw [inv.1 h] at hw; exact absurd hw (by simp)
    · rfl
  exact ticks_reopen c _ _ d hl hw (by omega) (by omega)

/-! ## the hypotheses are satisfiable on concrete, non-trivial runs (kernel evaluation) -/

def demo : Cfg := { kind := .counter, start := 2, interval := 1, goal := some 4, window := 2, timeout := 8 }

/-- enable, hit, hit inside the window (ignored), two ticks, hit (completes: reset + disable) -/
example : (run demo (init demo) [.enable, .count, .count, .tick, .tick, .count]).1.value = 2 ∧
    total nHit (run demo (init demo) [.enable, .count, .count, .tick, .tick, .count]).2 = 2 ∧
    total nComplete (run demo (init demo) [.enable, .count, .count, .tick, .tick, .count]).2 = 1 ∧
    (run demo (init demo) [.enable, .count, .count, .tick, .tick, .count]).1.enabled = false := by decide

example : (run demo (init demo) [.enable, .count]).1.windowUntil = some 2 := by decide

def demoAcc : Cfg := { kind := .accrual, steps := 3, startEnabled := true }
example : allTrue (marks (init demoAcc).flags [2, 0]) = false ∧ (init demoAcc).enabled = true := by decide
example : total nComplete (run demoAcc (init demoAcc) [.hit 2, .hit 0, .hit 2, .hit 1]).2 = 1 := by decide

def demoSeq : Cfg := { kind := .sequence, steps := 3, startEnabled := true }
example : seqAdv (init demoSeq).value [1, 0, 0, 2, 1] = 2 := by decide
example : total nComplete (run demoSeq (init demoSeq) [.hit 1, .hit 0, .hit 0, .hit 2, .hit 1, .hit 2]).2 = 1 := by decide

end MpfVerif.C18
