import MpfVerif.Lemmas.DriverTimers
import MpfVerif.Gen.HwDriverCallSites
import MpfVerif.Lemmas.DriverGen
/-!
# C08 — coils are never driven beyond their configured safety limits

The four programs below are *regenerated from `mpf/devices/driver.py` on every check*; these theorems are
re-checked against whatever the source says now.
-/
namespace MpfVerif.C08
open MpfVerif.Py MpfVerif.Gen.DriverVerify MpfVerif.Driver

/-- **pulse power**: for every configuration and every argument (None, bool, int, float, NaN, str, negative, > 1)
`get_and_verify_pulse_power` either raises or returns a number in [0, 1] that does not exceed the effective limit. -/
theorem pulse_power_sound (c : Ctx) :
    Triple c (fun _ => True) get_and_verify_pulse_power (fun _ => False)
      (fun v => inRangeB v 0 1000000 = true ∧ pyCmp ">" v (effMaxPulsePower c) = .ok false) := by
  unfold get_and_verify_pulse_power
  refine Triple.cons (fun _ => True) (Triple.ifAssign_top c _ _ _ _ _) ?_
  refine Triple.cons (fun l => inRangeB (l "pulse_power") 0 1000000 = true) ?_ ?_
  · exact Triple.weaken (Triple.ifRaise c _ _ _ _) (fun l h => range_of_not_cond c l _ h.2)
  refine Triple.cons (fun l => inRangeB (l "pulse_power") 0 1000000 = true ∧ l "max_pulse_power" = .int 0) ?_ ?_
  · refine Triple.assign c _ _ _ _ _ ?_
    intro l v hP hv
    simp only [evalE, pure, Except.pure, Except.ok.injEq] at hv
    subst hv
    simpa using hP
  refine Triple.cons (fun l => inRangeB (l "pulse_power") 0 1000000 = true ∧ l "max_pulse_power" = effMaxPulsePower c) ?_ ?_
  · refine Triple.byExec c _ _ _ _ ?_
    intro l hP o ho
    rw [execL_single] at ho
    unfold effMaxPulsePower
    simp only [execS, evalC, evalE, bind, Except.bind, pure, Except.pure] at ho
    cases h1 : (c.cfg "max_pulse_power").truthy <;> simp only [h1, if_true, if_false, Bool.false_eq_true] at ho ⊢
    · rw [execL_single] at ho
      simp only [execS, evalC, evalE, bind, Except.bind, pure, Except.pure] at ho
      cases h2 : (c.cfg "default_pulse_power").truthy <;> simp only [h2, if_true, if_false, Bool.false_eq_true] at ho ⊢
      · simp only [execL, pure, Except.pure, Except.ok.injEq] at ho
        subst ho; exact hP
      · rw [execL_single] at ho
        simp only [execS, evalE, bind, Except.bind, pure, Except.pure, Except.ok.injEq] at ho
        subst ho; simpa using hP.1
    · rw [execL_single] at ho
      simp only [execS, evalE, bind, Except.bind, pure, Except.pure, Except.ok.injEq] at ho
      subst ho; simpa using hP.1
  refine Triple.cons (fun l => inRangeB (l "pulse_power") 0 1000000 = true ∧
      pyCmp ">" (l "pulse_power") (effMaxPulsePower c) = .ok false) ?_ ?_
  · refine Triple.weaken (Triple.ifRaise c _ _ _ _) ?_
    intro l ⟨⟨h1, h2⟩, h3⟩
    simp only [evalC, evalE, bind, Except.bind, pure, Except.pure, h2] at h3
    exact ⟨h1, h3⟩
  exact Triple.ret c _ _ _ (fun l h => h)

/-- **hold power**: either raises or returns a number in [0, 1] not above the effective hold limit
(max_hold_power, else 1.0 if allow_enable, else default_hold_power, else 0). -/
theorem hold_power_sound (c : Ctx) :
    Triple c (fun _ => True) get_and_verify_hold_power (fun _ => False)
      (fun v => inRangeB v 0 1000000 = true ∧ pyCmp ">" v (effMaxHoldPower c) = .ok false) := by
  unfold get_and_verify_hold_power
  refine Triple.cons (fun _ => True) (Triple.ifAssign_top c _ _ _ _ _) ?_
  refine Triple.cons (fun _ => True) (Triple.ifAssign_top c _ _ _ _ _) ?_
  refine Triple.cons (fun _ => True) (Triple.ifAssign_top c _ _ _ _ _) ?_
  refine Triple.cons (fun _ => True) (Triple.ifAssign_top c _ _ _ _ _) ?_
  refine Triple.cons (fun l => inRangeB (l "hold_power") 0 1000000 = true) ?_ ?_
  · exact Triple.weaken (Triple.ifRaise c _ _ _ _) (fun l h => range_of_not_cond c l _ h.2)
  refine Triple.cons (fun l => inRangeB (l "hold_power") 0 1000000 = true ∧ l "max_hold_power" = .int 0) ?_ ?_
  · refine Triple.assign c _ _ _ _ _ ?_
    intro l v hP hv
    simp only [evalE, pure, Except.pure, Except.ok.injEq] at hv
    subst hv
    simpa using hP
  refine Triple.cons (fun l => inRangeB (l "hold_power") 0 1000000 = true ∧ l "max_hold_power" = effMaxHoldPower c) ?_ ?_
  · refine Triple.byExec c _ _ _ _ ?_
    intro l hP o ho
    rw [execL_single] at ho
    unfold effMaxHoldPower
    simp only [execS, evalC, evalE, bind, Except.bind, pure, Except.pure] at ho
    cases h1 : (c.cfg "max_hold_power").truthy <;> simp only [h1, if_true, if_false, Bool.false_eq_true] at ho ⊢
    · rw [execL_single] at ho
      simp only [execS, evalC, evalE, bind, Except.bind, pure, Except.pure] at ho
      cases h2 : (c.cfg "allow_enable").truthy <;> simp only [h2, if_true, if_false, Bool.false_eq_true] at ho ⊢
      · rw [execL_single] at ho
        simp only [execS, evalC, evalE, bind, Except.bind, pure, Except.pure] at ho
        cases h3 : (c.cfg "default_hold_power").truthy <;> simp only [h3, if_true, if_false, Bool.false_eq_true] at ho ⊢
        · simp only [execL, pure, Except.pure, Except.ok.injEq] at ho
          subst ho; exact hP
        · rw [execL_single] at ho
          simp only [execS, evalE, bind, Except.bind, pure, Except.pure, Except.ok.injEq] at ho
          subst ho; simpa using hP.1
      · rw [execL_single] at ho
        simp only [execS, evalE, bind, Except.bind, pure, Except.pure, Except.ok.injEq] at ho
        subst ho; simpa using hP.1
    · rw [execL_single] at ho
      simp only [execS, evalE, bind, Except.bind, pure, Except.pure, Except.ok.injEq] at ho
      subst ho; simpa using hP.1
  refine Triple.cons (fun l => inRangeB (l "hold_power") 0 1000000 = true ∧
      pyCmp ">" (l "hold_power") (effMaxHoldPower c) = .ok false) ?_ ?_
  · refine Triple.weaken (Triple.ifRaise c _ _ _ _) ?_
    intro l ⟨⟨h1, h2⟩, h3⟩
    simp only [evalC, evalE, bind, Except.bind, pure, Except.pure, h2] at h3
    exact ⟨h1, h3⟩
  exact Triple.ret c _ _ _ (fun l h => h)

/-- **pulse length**: either raises or returns an int ≥ 0 which, when max_pulse_ms is configured, is not above it -/
theorem pulse_ms_sound (c : Ctx) :
    Triple c (fun _ => True) get_and_verify_pulse_ms (fun _ => False)
      (fun v => v.isInt = true ∧ geB v 0 = true ∧
        ((c.cfg "max_pulse_ms").truthy = true → pyCmp ">" v (c.cfg "max_pulse_ms") = .ok false)) := by
  unfold get_and_verify_pulse_ms
  refine Triple.cons (fun _ => True) (Triple.ifAssign_top c _ _ _ _ _) ?_
  refine Triple.cons (fun l => (l "pulse_ms").isInt = true) ?_ ?_
  · exact Triple.weaken (Triple.ifRaise c _ _ _ _) (fun l h => isInt_of_not_cond c l _ h.2)
  refine Triple.cons (fun l => (l "pulse_ms").isInt = true ∧ geB (l "pulse_ms") 0 = true) ?_ ?_
  · exact Triple.weaken (Triple.ifRaise c _ _ _ _) (fun l h => ⟨h.1, ge_of_lt_cond c l _ h.1 h.2⟩)
  refine Triple.cons (fun l => (l "pulse_ms").isInt = true ∧ geB (l "pulse_ms") 0 = true ∧
      ((c.cfg "max_pulse_ms").truthy = true → pyCmp ">" (l "pulse_ms") (c.cfg "max_pulse_ms") = .ok false)) ?_ ?_
  · exact Triple.weaken (Triple.ifRaise c _ _ _ _) (fun l h => ⟨h.1.1, h.1.2, limit_of_and_cond c l _ _ h.2⟩)
  exact Triple.ret c _ _ _ (fun l h => h)

/-- **timed-enable length**: either raises or returns an int ≥ 0, not above max_hold_duration when that is configured -/
theorem timed_enable_ms_sound (c : Ctx) :
    Triple c (fun _ => True) get_and_verify_timed_enable_ms (fun _ => False)
      (fun v => v.isInt = true ∧ geB v 0 = true ∧
        ((c.cfg "max_hold_duration").truthy = true → pyCmp ">" v (c.cfg "max_hold_duration") = .ok false)) := by
  unfold get_and_verify_timed_enable_ms
  refine Triple.cons (fun _ => True) (Triple.ifAssign_top c _ _ _ _ _) ?_
  refine Triple.cons (fun l => (l "timed_enable_ms").isInt = true) ?_ ?_
  · exact Triple.weaken (Triple.ifRaise c _ _ _ _) (fun l h => isInt_of_not_cond c l _ h.2)
  refine Triple.cons (fun l => (l "timed_enable_ms").isInt = true ∧ geB (l "timed_enable_ms") 0 = true) ?_ ?_
  · exact Triple.weaken (Triple.ifRaise c _ _ _ _) (fun l h => ⟨h.1, ge_of_lt_cond c l _ h.1 h.2⟩)
  refine Triple.cons (fun l => (l "timed_enable_ms").isInt = true ∧ geB (l "timed_enable_ms") 0 = true ∧
      ((c.cfg "max_hold_duration").truthy = true → pyCmp ">" (l "timed_enable_ms") (c.cfg "max_hold_duration") = .ok false)) ?_ ?_
  · exact Triple.weaken (Triple.ifRaise c _ _ _ _) (fun l h => ⟨h.1.1, h.1.2, limit_of_and_cond c l _ _ h.2⟩)
  exact Triple.ret c _ _ _ (fun l h => h)

/-- the four theorems above as one fact about the functions the model calls: whatever a request passes in, what comes
back from `get_and_verify_*` is inside the coil's limits -/
theorem verify_sound (c : Ctx) : VerifySound c :=
  ⟨fun _ _ h => call_of_triple _ _ (pulse_ms_sound c) h, fun _ _ h => call_of_triple _ _ (pulse_power_sound c) h,
   fun _ _ h => call_of_triple _ _ (hold_power_sound c) h, fun _ _ h => call_of_triple _ _ (timed_enable_ms_sound c) h⟩

/-- `timed_enable(...)`: all four parameters are verified before the single platform command is built -/
theorem timedEnable_cmds (c : Ctx) (s s' : Driver.St) (te hp ms pw : PyVal) (cmds : List Cmd)
    (h : doTimedEnable c s te hp ms pw = .ok (s', cmds)) : ∀ cmd ∈ cmds, CmdOK c cmd :=
  (timedEnable_cmds' c (verify_sound c) s s' te hp ms pw cmds h).2

/-- `_pulse_now` with verified values emits a hardware pulse, a re-verified timed enable, or the software-timed
enable whose hold power is the verified pulse power -/
theorem pulseNow_cmds (c : Ctx) (s s' : Driver.St) (pm pp : PyVal) (cmds : List Cmd) (hd : DurOK c pm) (hp : PowerOK c pp)
    (h : pulseNow c s pm pp = .ok (s', cmds)) : ∀ cmd ∈ cmds, CmdOK c cmd :=
  (pulseNow_cmds' c (verify_sound c) s s' pm pp cmds hd hp h).2

/-- every platform command built by one `pulse / enable / timed_enable / disable` request — with or without
`max_wait_ms` — respects the limits: pulse length within max_pulse_ms, powers in [0,1] and within max_pulse_power / the
effective hold limit, and a permanent enable never with hold power 0 — for every configuration and every parameter
value; and a call that the PSU delays is stored with verified arguments only -/
theorem op_cmds_within_limits (c : Ctx) (s s' : Driver.St) (op : Op) (cmds : List Cmd) (hs : PendsOK c s)
    (h : doOp c s op = .ok (s', cmds)) : PendsOK c s' ∧ ∀ cmd ∈ cmds, CmdOK c cmd :=
  op_cmds' c (verify_sound c) s s' op cmds hs h

/-- the whole command log of any sequence of requests, clock advances and timer firings -/
def runOps (c : Ctx) : Driver.St → List Op → List (Nat × Cmd)
  | _, [] => []
  | s, op :: rest => (step c s op).2.2 ++ runOps c (step c s op).1 rest

/-- **C08, command log**: for every coil configuration, every starting state whose pending calls are verified (the
initial state has none) and every sequence of pulse / enable / timed_enable / disable requests with arbitrary parameters,
with or without `max_wait_ms` and whatever the PSU answers, interleaved with clock advances and with timers fired one by
one in ANY order the event loop may choose (`fire`), every command that reaches the platform driver — at once, from a
software timer, or from a PSU-delayed `_pulse_now` / `_enable_now` — respects the limits. -/
theorem cmd_within_limits (c : Ctx) (s : Driver.St) (ops : List Op) (hs : PendsOK c s) :
    ∀ tc ∈ runOps c s ops, CmdOK c tc.2 := by
  induction ops generalizing s with
  | nil => simp [runOps]
  | cons op rest ih =>
    intro tc h
    simp only [runOps, List.mem_append] at h
    have h1 := step_cmds c (verify_sound c) s op hs
    rcases h with h | h
    · exact h1.2 tc h
    · exact ih _ h1.1 tc h

/-- the state after any sequence of harness steps -/
def runState (c : Ctx) : Driver.St → List Op → Driver.St
  | s, [] => s
  | s, op :: rest => runState c (step c s op).1 rest

/-- the invariant of every reachable state: a software pulse has its timer, a held coil has its watchdog, and no
registered timer has been missed -/
def Inv (c : Ctx) (s : Driver.St) : Prop := SInv c s ∧ NoOverdue s

theorem init_inv (c : Ctx) : Inv c {} := by
  refine ⟨⟨?_, ?_, ?_⟩, ?_⟩ <;> simp [Pre, LimitInv, LimHold, NoOverdue, dues]

theorem runState_inv (c : Ctx) (ops : List Op) : ∀ s, Inv c s → Inv c (runState c s ops) := by
  induction ops with
  | nil => intro s h; exact h
  | cons op rest ih => intro s h; exact ih _ (step_inv c s op h.1 h.2)

/-- one harness step (request + everything due, a clock advance past any number of deadlines, or one timer fired out of
several that are due) keeps the software-pulse invariant: a coil switched on by a software-timed pulse has its switch-off
timer pending and not missed -/
theorem step_keeps_soft_timer (c : Ctx) (s : Driver.St) (op : Op) (h : Inv c s) : TimerInv (step c s op).1 :=
  let h1 := step_inv c s op h.1 h.2
  timerInv_of _ h1.1.1 h1.2

/-- **C08, software-timed pulses**: after every history of requests (immediate or delayed by the PSU), clock advances
and timer firings in any order, whenever the coil is on because of a software-timed pulse, its `timed_disable` timer is
registered and its deadline has not passed — so the pulse cannot outlive its timer "whatever else happens in between"
(other pulses, enables, disables, the hold-limit timer firing, delayed calls arriving, same-instant coincidences). -/
theorem soft_pulse_always_has_timer (c : Ctx) (ops : List Op) : TimerInv (runState c {} ops) :=
  let h := runState_inv c ops {} (init_inv c)
  timerInv_of _ h.1.1 h.2

/-- … and when the clock reaches that instant the coil is switched off: firing at a time at which `timed_disable`
is due emits `disable` and clears the software-pulse flag -/
theorem soft_timer_fires (s : Driver.St) (d : Nat) (h : s.timedDisable = some d) (hd : d ≤ s.now) :
    Cmd.disable ∈ (fireDue s).2 ∧ (fireDue s).1.softOn = false ∧ (fireDue s).1.timedDisable = none := by
  have h1 : fireTd s = doDisable { s with timedDisable := none } := by simp [fireTd, h, hd]
  unfold fireDue
  rw [h1]
  refine ⟨by simp [doDisable], ?_, ?_⟩ <;> simp [fireLim, doDisable]

/-- the same for the event loop picking that timer explicitly (`fire td`), in whatever order with the other timers -/
theorem soft_timer_fires_explicitly (c : Ctx) (s s' : Driver.St) (o : List Cmd) (h : fire c s .td = some (s', o)) :
    Cmd.disable ∈ o ∧ s'.softOn = false ∧ s'.timedDisable = none := by
  unfold fire at h
  cases hd : dueOf s .td with
  | none => simp [hd] at h
  | some d =>
    simp only [hd] at h
    split at h
    · simp only [Option.some.injEq, runTimer, doDisable, Prod.mk.injEq] at h
      obtain ⟨rfl, rfl⟩ := h
      simp
    · simp at h

/-- **C08, hold limit (liveness)**: after every history of requests, clock advances and timer firings, on a coil with
`max_hold_duration` configured, whenever the coil is held on by `_enable_now` (since `t`: the instant the platform
command was sent — for an enable delayed by the PSU that is the moment it is switched ON, not the moment it was
requested), the `enable_limit_reached` timer is registered for exactly `t + max_hold_duration` and that instant has not
passed without the timer running. -/
theorem limit_always_armed (c : Ctx) (ops : List Op) (hmd : (c.cfg "max_hold_duration").truthy = true) (t : Nat)
    (ht : (runState c {} ops).holdSince = some t) :
    (runState c {} ops).limitDue = some (t + secsToMs (c.cfg "max_hold_duration")) ∧
      (runState c {} ops).now ≤ t + secsToMs (c.cfg "max_hold_duration") := by
  have h := runState_inv c ops {} (init_inv c)
  have h1 := h.1.2.1 hmd t ht
  exact ⟨h1, h.2 _ ((mem_dues _ _).2 (Or.inr (Or.inl h1)))⟩

/-- … and when the event loop runs that timer (alone or in any order with others due at the same instant) the coil is
switched off and the ghost `holdSince` is cleared -/
theorem limit_timer_disables (c : Ctx) (s s' : Driver.St) (o : List Cmd) (h : fire c s .lim = some (s', o)) :
    Cmd.disable ∈ o ∧ s'.holdSince = none ∧ s'.limitDue = none := by
  unfold fire at h
  cases hd : dueOf s .lim with
  | none => simp [hd] at h
  | some d =>
    simp only [hd] at h
    split at h
    · simp only [Option.some.injEq, runTimer, doDisable, Prod.mk.injEq] at h
      obtain ⟨rfl, rfl⟩ := h
      simp
    · simp at h

/-- the ghost is honest: `_enable_now` sends exactly one permanent `enable` and marks the coil held from now (or keeps an
earlier mark); `disable` sends `disable` and clears the mark — `holdSince` is set exactly where the platform is told to
hold and cleared exactly where it is told to release -/
theorem hold_ghost_follows_commands (c : Ctx) (s : Driver.St) (pm pp h : PyVal) :
    (enableNow c s pm pp h).2 = [.enable pp pm h false] ∧
      (enableNow c s pm pp h).1.holdSince = some (s.holdSince.getD s.now) ∧
      (doDisable s).2 = [.disable] ∧ (doDisable s).1.holdSince = none := by
  refine ⟨rfl, ?_, rfl, rfl⟩
  unfold enableNow
  simp only []
  split <;> rfl

/-- **seeded class C08-limit-armed-early**: an enable that the PSU delays is limited by `max_hold_duration` from the
moment it is switched on.  When the delayed `_enable_now` runs at `t` (the event loop fires the pending call) on a coil
that was not held, the watchdog is armed for `t + max_hold_duration` at that moment — a `disable` that came in between
request and switch-on cannot have removed it. -/
theorem delayed_enable_limited_from_switch_on (c : Ctx) (s s' : Driver.St) (i d : Nat) (pm pp hp : PyVal) (o : List Cmd)
    (hmd : (c.cfg "max_hold_duration").truthy = true) (hi : Inv c s) (hp' : s.pend[i]? = some (.enableNow d pm pp hp))
    (hfree : s.holdSince = none) (h : fire c s (.pend i) = some (s', o)) :
    o = [.enable pp pm hp false] ∧ s'.holdSince = some s'.now ∧
      s'.limitDue = some (s'.now + secsToMs (c.cfg "max_hold_duration")) := by
  have hl : s.limitDue = none := by
    cases hx : s.limitDue with
    | none => rfl
    | some x => have := hi.1.2.2 (by simp [hx]); simp [hfree] at this
  unfold fire at h
  simp only [dueOf, hp', Option.map_some, Pend.due] at h
  split at h
  · simp only [Option.some.injEq, runTimer, hp', runPend, enableNow, hmd, hl, hfree, Option.isNone_none, Bool.and_self,
      if_true, Option.getD_none, Prod.mk.injEq] at h
    obtain ⟨rfl, rfl⟩ := h
    exact ⟨rfl, rfl, rfl⟩
  · simp at h

/-- non-vacuity: a 300 ms software pulse on a coil with nothing configured, then 125 ms, then another, then 400 ms:
one enable, one re-armed timer, one disable exactly 300 ms after the second pulse -/
example :
    let c : Ctx := ⟨fun k => if k = "max_pulse_power" then .flt 1000000 else .none,
                    fun k => if k = "max_pulse" then .int 255 else .int 10⟩
    (runOps c {} [.pulse (.int 300) .none, .advance 125, .pulse (.int 300) .none, .advance 400]).map (fun tc => tc.1)
      = [0, 125, 425] := by decide

/-- non-vacuity (PSU): on a coil with max_hold_duration 0.5 s, `enable(max_wait_ms=500)` which the PSU delays by 60 ms,
a `disable` 10 ms... inside the wait, then the clock: the enable arrives at 60, is held since 60 and is switched off by the
watchdog at 560 = 60 + 500 (not at 500 = request + 500, and not never) -/
example :
    let c : Ctx := ⟨fun k => if k = "allow_enable" then .bool true else if k = "max_hold_duration" then .flt 500000
                      else if k = "max_pulse_power" then .flt 1000000 else .none,
                    fun k => if k = "max_pulse" then .int 255 else .int 10⟩
    (runOps c {} [.enableW .none .none .none (.int 500) (.flt 60000000), .disable, .advance 1000]).map
        (fun tc => (tc.1, match tc.2 with | .disable => 0 | .enable _ _ _ _ => 1 | _ => 2))
      = [(0, 0), (60, 1), (560, 0)] := by decide

/-! ## The hand model does exactly what the source does

`Gen/DriverOps.lean` holds `Driver.pulse / enable / timed_enable / disable / _pulse_now / _enable_now /
_enable_limit_reached / _notify_psu_and_get_wait_ms / event_*` as translated from `mpf/devices/driver.py` on this run.
The theorems below tie `Model/Driver.lean` (about which everything above is proved) to that text. -/

/-- what configuration validation and the platform guarantee about the two values the timers are computed from -/
def ConfigSane (c : Ctx) : Prop :=
  (c.env "max_pulse").num.isSome = true ∧ NumOrNone (c.cfg "max_hold_duration")

theorem vPulseMs_int (c : Ctx) : ∀ x v, vPulseMs c x = .ok v → v.isInt = true :=
  fun _ _ h => (call_of_triple _ _ (pulse_ms_sound c) h).1

theorem vTimedMs_int (c : Ctx) : ∀ x v, vTimedMs c x = .ok v → v.isInt = true :=
  fun _ _ h => (call_of_triple _ _ (timed_enable_ms_sound c) h).1

/-- the translated method, the keyword arguments a request of the model stands for, and — for a request with
`max_wait_ms` — the PSU's answer the model took as its input -/
def srcOf : Op → Option (List ESt × List (String × PyVal) × Option PyVal)
  | .pulse ms pw => some (Gen.DriverOps.pulse, [("pulse_ms", ms), ("pulse_power", pw)], none)
  | .enable ms pw hp => some (Gen.DriverOps.enable, [("pulse_ms", ms), ("pulse_power", pw), ("hold_power", hp)], none)
  | .timedEnable te hp ms pw => some (Gen.DriverOps.timed_enable,
      [("timed_enable_ms", te), ("hold_power", hp), ("pulse_ms", ms), ("pulse_power", pw)], none)
  | .disable => some (Gen.DriverOps.disable, [], none)
  | .pulseW ms pw mw w => some (Gen.DriverOps.pulse, [("pulse_ms", ms), ("pulse_power", pw), ("max_wait_ms", mw)], some w)
  | .enableW ms pw hp mw w => some (Gen.DriverOps.enable,
      [("pulse_ms", ms), ("pulse_power", pw), ("hold_power", hp), ("max_wait_ms", mw)], some w)
  | .timedEnableW te hp ms pw mw => some (Gen.DriverOps.timed_enable,
      [("timed_enable_ms", te), ("hold_power", hp), ("pulse_ms", ms), ("pulse_power", pw), ("max_wait_ms", mw)], none)
  | .advance _ => none
  | .fire _ => none

/-- the environment's answers agree with the model's input: the PSU's `get_wait_time_for_pulse` returns `w` -/
def PsuOK (ora : Oracle) : Option PyVal → Prop
  | none => True
  | some w => PsuAnswers ora w

/-- **C08, tie to the source**: for every configuration, every state of the software timers and the pending calls, every
request — with or without `max_wait_ms` — and every argument value (None, bool, int, float, NaN, str), and whatever the
PSU (its wait time `w` is arbitrary: zero, positive, fractional, negative, not a number) and the other collaborators
answer, running the *translated source* of the request and folding its calls on the platform driver and the delay manager
over the state gives exactly what the hand model computes: the same accept/refuse verdict, the same platform commands in
the same order with the same powers and durations, the same `timed_disable` and `enable_limit_reached` deadlines, and the
same PSU-delayed calls (callback, deadline, keyword arguments). -/
theorem requests_refine_source (c : Ctx) (ora : Oracle) (s : Driver.St) (op : Op) (prog : List ESt)
    (args : List (String × PyVal)) (w : Option PyVal) (hc : ConfigSane c) (hop : srcOf op = some (prog, args, w))
    (hw : PsuOK ora w) :
    hand s (doOp c s op) = gen s (callE c ora prog args) := by
  cases op with
  | pulse ms pw =>
    simp only [srcOf, Option.some.injEq, Prod.mk.injEq] at hop; obtain ⟨rfl, rfl, rfl⟩ := hop
    exact pulse_refines c ora s ms pw hc.1 (vPulseMs_int c) (vTimedMs_int c)
  | enable ms pw hp =>
    simp only [srcOf, Option.some.injEq, Prod.mk.injEq] at hop; obtain ⟨rfl, rfl, rfl⟩ := hop
    exact enable_refines c ora s ms pw hp hc.2
  | timedEnable te hp ms pw =>
    simp only [srcOf, Option.some.injEq, Prod.mk.injEq] at hop; obtain ⟨rfl, rfl, rfl⟩ := hop
    exact timed_enable_refines c ora s te hp ms pw (vPulseMs_int c) (vTimedMs_int c)
  | disable =>
    simp only [srcOf, Option.some.injEq, Prod.mk.injEq] at hop; obtain ⟨rfl, rfl, rfl⟩ := hop
    exact disable_refines c ora s
  | pulseW ms pw mw w' =>
    simp only [srcOf, Option.some.injEq, Prod.mk.injEq] at hop; obtain ⟨rfl, rfl, rfl⟩ := hop
    exact pulseW_refines c ora s ms pw mw w' hw hc.1 (vPulseMs_int c) (vTimedMs_int c)
  | enableW ms pw hp mw w' =>
    simp only [srcOf, Option.some.injEq, Prod.mk.injEq] at hop; obtain ⟨rfl, rfl, rfl⟩ := hop
    exact enableW_refines c ora s ms pw hp mw w' hw hc.2
  | timedEnableW te hp ms pw mw =>
    simp only [srcOf, Option.some.injEq, Prod.mk.injEq] at hop; obtain ⟨rfl, rfl, rfl⟩ := hop
    exact timed_enableW_refines c ora s te hp ms pw mw (vPulseMs_int c) (vTimedMs_int c)
  | advance dt => simp [srcOf] at hop
  | fire x => simp [srcOf] at hop

/-- **a refused request does nothing** (in the source): when the translated `pulse / enable / timed_enable` raises
(limit exceeded, negative or ill-typed value, hold power 0, a PSU answer that cannot be compared), none of the calls it
made before raising touched the platform driver, the two timers or the pending calls — nothing was clamped, passed
through or left behind. -/
theorem refused_request_has_no_effect_in_source (c : Ctx) (ora : Oracle) (s : Driver.St) (op : Op) (prog : List ESt)
    (args : List (String × PyVal)) (w : Option PyVal) (hc : ConfigSane c) (hop : srcOf op = some (prog, args, w))
    (hw : PsuOK ora w) (e : Err) (hr : (callE c ora prog args).2 = .error e) :
    (callE c ora prog args).1.foldl (applyEff s.now) ⟨s.timedDisable, s.limitDue, [], s.pend, false⟩ =
      ⟨s.timedDisable, s.limitDue, [], s.pend, false⟩ := by
  have h := requests_refine_source c ora s op prog args w hc hop hw
  unfold gen at h
  rw [hr] at h
  cases hd : doOp c s op with
  | error x => rw [hd] at h; simp only [hand, Prod.mk.injEq] at h; exact h.2.symm
  | ok r => rw [hd] at h; simp [hand] at h

/-- **the PSU-delayed callbacks** `_pulse_now(pulse_ms, pulse_power)` / `_enable_now(pulse_ms, pulse_power, hold_power)`,
run by the delay manager with the stored keyword arguments, do what `runPend` of the model does: same commands, same
timers (the hold limit armed by `_enable_now` itself, at the time it runs), same verdict. -/
theorem delayed_calls_refine_source (c : Ctx) (ora : Oracle) (s : Driver.St) (pm pp hp : PyVal) (hc : ConfigSane c)
    (hpm : pm.isInt = true) :
    hand s (pulseNow c s pm pp) =
      gen s (callE c ora Gen.DriverOps.p_pulse_now [("pulse_ms", pm), ("pulse_power", pp)]) ∧
    hand s (.ok (enableNow c s pm pp hp)) =
      gen s (callE c ora Gen.DriverOps.p_enable_now [("pulse_ms", pm), ("pulse_power", pp), ("hold_power", hp)]) :=
  ⟨pulse_now_refines c ora s pm pp hpm hc.1 (vPulseMs_int c) (vTimedMs_int c), enable_now_refines c ora s pm pp hp hc.2⟩

/-- **control events** (`event_pulse / event_enable / event_timed_enable / event_disable`, which carry arbitrary
parameters from configs and shows) do what the methods do: same commands, same timers, same verdict. -/
theorem control_events_refine_source (c : Ctx) (ora : Oracle) (s : Driver.St) (a b h t m : PyVal) :
    gen s (callE c ora Gen.DriverOps.event_pulse [("pulse_ms", a), ("pulse_power", b), ("max_wait_ms", m)]) =
      gen s (callE c ora Gen.DriverOps.pulse [("pulse_ms", a), ("pulse_power", b), ("max_wait_ms", m)]) ∧
    gen s (callE c ora Gen.DriverOps.event_enable [("pulse_ms", a), ("pulse_power", b), ("hold_power", h)]) =
      gen s (callE c ora Gen.DriverOps.enable [("pulse_ms", a), ("pulse_power", b), ("hold_power", h)]) ∧
    gen s (callE c ora Gen.DriverOps.event_timed_enable
        [("timed_enable_ms", t), ("hold_power", h), ("pulse_ms", a), ("pulse_power", b), ("max_wait_ms", m)]) =
      gen s (callE c ora Gen.DriverOps.timed_enable
        [("timed_enable_ms", t), ("hold_power", h), ("pulse_ms", a), ("pulse_power", b), ("max_wait_ms", m)]) ∧
    gen s (callE c ora Gen.DriverOps.event_disable []) = gen s (callE c ora Gen.DriverOps.disable []) :=
  ⟨event_pulse_is_pulse c ora s a b m, event_enable_is_enable c ora s a b h,
   event_timed_enable_is_timed_enable c ora s t h a b m, event_disable_is_disable c ora s⟩

/-- **the hold-limit callback** `_enable_limit_reached` (and the `timed_disable` callback, which is `disable` itself)
switches the coil off and leaves no limit timer behind, as `fireDue` of the model does. -/
theorem limit_callback_refines_source (c : Ctx) (ora : Oracle) (s : Driver.St) :
    hand s (.ok (doDisable s)) = gen s (callE c ora Gen.DriverOps.p_enable_limit_reached []) :=
  limit_reached_refines c ora s

/-- non-vacuity: a sane configuration exists, and on it the translated `pulse(300)` on a platform whose hardware pulses
stop at 255 ms arms the 300 ms software timer and sends the software-timed enable — computed by running the translated
source, not the hand model -/
example :
    let c : Ctx := ⟨fun k => if k = "max_pulse_power" then .flt 1000000 else .none,
                    fun k => if k = "max_pulse" then .int 255 else .int 10⟩
    ConfigSane c ∧
    (gen {} (callE c (fun _ => .none) Gen.DriverOps.pulse [("pulse_ms", .int 300)])) =
      (true, ⟨some 300, none, [.enable (.flt 1000000) (.int 0) (.flt 1000000) false], [], false⟩) := by
  refine ⟨⟨by decide, Or.inl (by decide)⟩, by decide⟩

/-- non-vacuity (PSU): the translated `enable(max_wait_ms=500)` with a PSU that answers 60 ms sends nothing to the platform
and arms no timer, it leaves one delayed `_enable_now` due at 60 with the verified arguments — computed by running the
translated source -/
example :
    let c : Ctx := ⟨fun k => if k = "allow_enable" then .bool true else if k = "max_pulse_power" then .flt 1000000 else .none,
                    fun k => if k = "max_pulse" then .int 255 else .int 10⟩
    (gen {} (callE c (fun _ => .flt 60000000) Gen.DriverOps.enable [("max_wait_ms", .int 500)])) =
      (true, ⟨none, none, [], [.enableNow 60 (.int 10) (.flt 1000000) (.flt 1000000)], false⟩) := by
  decide

/-- **entry-point closure** (regenerated from the whole source tree on every run): the only places under `mpf/`
(outside the platform packages) that actuate a platform driver directly are the three `Driver` paths modelled above
(`_pulse_now`, `_enable_now`, `timed_enable` — every coil device, coil player, ejector, flipper `sw_flip` and dual-wound
coil goes through them), the software-EOS repulse manager (which re-issues the verified settings of an installed rule,
C10) and `DigitalOutput` (not a coil: fixed power 1.0, no coil limits configured).  A new direct call site anywhere
else breaks this theorem. -/
theorem all_call_sites_known :
    ∀ site ∈ MpfVerif.Gen.HwDriverCallSites.table, site ∈
      [("mpf/devices/driver.py", "_enable_now", "enable"), ("mpf/devices/driver.py", "_pulse_now", "enable"),
       ("mpf/devices/driver.py", "_pulse_now", "pulse"), ("mpf/devices/driver.py", "timed_enable", "timed_enable"),
       ("mpf/core/platform_controller.py", "_repulse_on_eos_open", "enable"),
       ("mpf/core/platform_controller.py", "_repulse_on_eos_open", "pulse"),
       ("mpf/devices/digital_output.py", "enable", "enable"), ("mpf/devices/digital_output.py", "pulse", "pulse")] := by
  decide

end MpfVerif.C08
