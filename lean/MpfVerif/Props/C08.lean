import MpfVerif.Lemmas.DriverTimers
import MpfVerif.Gen.HwDriverCallSites
import MpfVerif.Lemmas.DriverGen
/-!
# C08 — coils are never driven beyond their configured safety limits

The four programs below are *regenerated from `mpf/devices/driver.py` on every check*; these theorems are
re-checked against whatever the source says now.
-/
namespace MpfVerif.C08
open MpfVerif.Py MpfVerif.Gen.DriverVerify MpfVerif.Driver

/-- **pulse power**: for every configuration and every argument (None, bool, int, float, NaN, str, negative, > 1)
`get_and_verify_pulse_power` either raises or returns a number in [0, 1] that does not exceed the effective limit. -/
theorem pulse_power_sound (c : Ctx) :
    Triple c (fun _ => True) get_and_verify_pulse_power (fun _ => False)
      (fun v => inRangeB v 0 1000000 = true ∧ pyCmp ">" v (effMaxPulsePower c) = .ok false) := by
  unfold get_and_verify_pulse_power
  refine Triple.cons (fun _ => True) (Triple.ifAssign_top c _ _ _ _ _) ?_
  refine Triple.cons (fun l => inRangeB (l "pulse_power") 0 1000000 = true) ?_ ?_
  · exact Triple.weaken (Triple.ifRaise c _ _ _ _) (fun l h => range_of_not_cond c l _ h.2)
  refine Triple.cons (fun l => inRangeB (l "pulse_power") 0 1000000 = true ∧ l "max_pulse_power" = .int 0) ?_ ?_
  · refine Triple.assign c _ _ _ _ _ ?_
    intro l v hP hv
    simp only [evalE, pure, Except.pure, Except.ok.injEq] at hv
    subst hv
    simpa using hP
  refine Triple.cons (fun l => inRangeB (l "pulse_power") 0 1000000 = true ∧ l "max_pulse_power" = effMaxPulsePower c) ?_ ?_
  · refine Triple.byExec c _ _ _ _ ?_
    intro l hP o ho
    rw [execL_single] at ho
    unfold effMaxPulsePower
    simp only [execS, evalC, evalE, bind, Except.bind, pure, Except.pure] at ho
    cases h1 : (c.cfg "max_pulse_power").truthy <;> simp only [h1, if_true, if_false, Bool.false_eq_true] at ho ⊢
    · rw [execL_single] at ho
      simp only [execS, evalC, evalE, bind, Except.bind, pure, Except.pure] at ho
      cases h2 : (c.cfg "default_pulse_power").truthy <;> simp only [h2, if_true, if_false, Bool.false_eq_true] at ho ⊢
      · simp only [execL, pure, Except.pure, Except.ok.injEq] at ho
        subst ho; exact hP
      · rw [execL_single] at ho
        simp only [execS, evalE, bind, Except.bind, pure, Except.pure, Except.ok.injEq] at ho
        subst ho; simpa using hP.1
    · rw [execL_single] at ho
      simp only [execS, evalE, bind, Except.bind, pure, Except.pure, Except.ok.injEq] at ho
      subst ho; simpa using hP.1
  refine Triple.cons (fun l => inRangeB (l "pulse_power") 0 1000000 = true ∧
      pyCmp ">" (l "pulse_power") (effMaxPulsePower c) = .ok false) ?_ ?_
  · refine Triple.weaken (Triple.ifRaise c _ _ _ _) ?_
    intro l ⟨⟨h1, h2⟩, h3⟩
    simp only [evalC, evalE, bind, Except.bind, pure, Except.pure, h2] at h3
    exact ⟨h1, h3⟩
  exact Triple.ret c _ _ _ (fun l h => h)

/-- **hold power**: either raises or returns a number in [0, 1] not above the effective hold limit
(max_hold_power, else 1.0 if allow_enable, else default_hold_power, else 0). -/
theorem hold_power_sound (c : Ctx) :
    Triple c (fun _ => True) get_and_verify_hold_power (fun _ => False)
      (fun v => inRangeB v 0 1000000 = true ∧ pyCmp ">" v (effMaxHoldPower c) = .ok false) := by
  unfold get_and_verify_hold_power
  refine Triple.cons (fun _ => True) (Triple.ifAssign_top c _ _ _ _ _) ?_
  refine Triple.cons (fun _ => True) (Triple.ifAssign_top c _ _ _ _ _) ?_
  refine Triple.cons (fun _ => True) (Triple.ifAssign_top c _ _ _ _ _) ?_
  refine Triple.cons (fun _ => True) (Triple.ifAssign_top c _ _ _ _ _) ?_
  refine Triple.cons (fun l => inRangeB (l "hold_power") 0 1000000 = true) ?_ ?_
  · exact Triple.weaken (Triple.ifRaise c _ _ _ _) (fun l h => range_of_not_cond c l _ h.2)
  refine Triple.cons (fun l => inRangeB (l "hold_power") 0 1000000 = true ∧ l "max_hold_power" = .int 0) ?_ ?_
  · refine Triple.assign c _ _ _ _ _ ?_
    intro l v hP hv
    simp only [evalE, pure, Except.pure, Except.ok.injEq] at hv
    subst hv
    simpa using hP
  refine Triple.cons (fun l => inRangeB (l "hold_power") 0 1000000 = true ∧ l "max_hold_power" = effMaxHoldPower c) ?_ ?_
  · refine Triple.byExec c _ _ _ _ ?_
    intro l hP o ho
    rw [execL_single] at ho
    unfold effMaxHoldPower
    simp only [execS, evalC, evalE, bind, Except.bind, pure, Except.pure] at ho
    cases h1 : (c.cfg "max_hold_power").truthy <;> simp only [h1, if_true, if_false, Bool.false_eq_true] at ho ⊢
    · rw [execL_single] at ho
      simp only [execS, evalC, evalE, bind, Except.bind, pure, Except.pure] at ho
      cases h2 : (c.cfg "allow_enable").truthy <;> simp only [h2, if_true, if_false, Bool.false_eq_true] at ho ⊢
      · rw [execL_single] at ho
        simp only [execS, evalC, evalE, bind, Except.bind, pure, Except.pure] at ho
        cases h3 : (c.cfg "default_hold_power").truthy <;> simp only [h3, if_true, if_false, Bool.false_eq_true] at ho ⊢
        · simp only [execL, pure, Except.pure, Except.ok.injEq] at ho
          subst ho; exact hP
        · rw [execL_single] at ho
          simp only [execS, evalE, bind, Except.bind, pure, Except.pure, Except.ok.injEq] at ho
          subst ho; simpa using hP.1
      · rw [execL_single] at ho
        simp only [execS, evalE, bind, Except.bind, pure, Except.pure, Except.ok.injEq] at ho
        subst ho; simpa using hP.1
    · rw [execL_single] at ho
      simp only [execS, evalE, bind, Except.bind, pure, Except.pure, Except.ok.injEq] at ho
      subst ho; simpa using hP.1
  refine Triple.cons (fun l => inRangeB (l "hold_power") 0 1000000 = true ∧
      pyCmp ">" (l "hold_power") (effMaxHoldPower c) = .ok false) ?_ ?_
  · refine Triple.weaken (Triple.ifRaise c _ _ _ _) ?_
    intro l ⟨⟨h1, h2⟩, h3⟩
    simp only [evalC, evalE, bind, Except.bind, pure, Except.pure, h2] at h3
    exact ⟨h1, h3⟩
  exact Triple.ret c _ _ _ (fun l h => h)

/-- **pulse length**: either raises or returns an int ≥ 0 which, when max_pulse_ms is configured, is not above it -/
theorem pulse_ms_sound (c : Ctx) :
    Triple c (fun _ => True) get_and_verify_pulse_ms (fun _ => False)
      (fun v => v.isInt = true ∧ geB v 0 = true ∧
        ((c.cfg "max_pulse_ms").truthy = true → pyCmp ">" v (c.cfg "max_pulse_ms") = .ok false)) := by
  unfold get_and_verify_pulse_ms
  refine Triple.cons (fun _ => True) (Triple.ifAssign_top c _ _ _ _ _) ?_
  refine Triple.cons (fun l => (l "pulse_ms").isInt = true) ?_ ?_
  · exact Triple.weaken (Triple.ifRaise c _ _ _ _) (fun l h => isInt_of_not_cond c l _ h.2)
  refine Triple.cons (fun l => (l "pulse_ms").isInt = true ∧ geB (l "pulse_ms") 0 = true) ?_ ?_
  · exact Triple.weaken (Triple.ifRaise c _ _ _ _) (fun l h => ⟨h.1, ge_of_lt_cond c l _ h.1 h.2⟩)
  refine Triple.cons (fun l => (l "pulse_ms").isInt = true ∧ geB (l "pulse_ms") 0 = true ∧
      ((c.cfg "max_pulse_ms").truthy = true → pyCmp ">" (l "pulse_ms") (c.cfg "max_pulse_ms") = .ok false)) ?_ ?_
  · exact Triple.weaken (Triple.ifRaise c _ _ _ _) (fun l h => ⟨h.1.1, h.1.2, limit_of_and_cond c l _ _ h.2⟩)
  exact Triple.ret c _ _ _ (fun l h => h)

/-- **timed-enable length**: either raises or returns an int ≥ 0, not above max_hold_duration when that is configured -/
theorem timed_enable_ms_sound (c : Ctx) :
    Triple c (fun _ => True) get_and_verify_timed_enable_ms (fun _ => False)
      (fun v => v.isInt = true ∧ geB v 0 = true ∧
        ((c.cfg "max_hold_duration").truthy = true → pyCmp ">" v (c.cfg "max_hold_duration") = .ok false)) := by
  unfold get_and_verify_timed_enable_ms
  refine Triple.cons (fun _ => True) (Triple.ifAssign_top c _ _ _ _ _) ?_
  refine Triple.cons (fun l => (l "timed_enable_ms").isInt = true) ?_ ?_
  · exact Triple.weaken (Triple.ifRaise c _ _ _ _) (fun l h => isInt_of_not_cond c l _ h.2)
  refine Triple.cons (fun l => (l "timed_enable_ms").isInt = true ∧ geB (l "timed_enable_ms") 0 = true) ?_ ?_
  · exact Triple.weaken (Triple.ifRaise c _ _ _ _) (fun l h => ⟨h.1, ge_of_lt_cond c l _ h.1 h.2⟩)
  refine Triple.cons (fun l => (l "timed_enable_ms").isInt = true ∧ geB (l "timed_enable_ms") 0 = true ∧
      ((c.cfg "max_hold_duration").truthy = true → pyCmp ">" (l "timed_enable_ms") (c.cfg "max_hold_duration") = .ok false)) ?_ ?_
  · exact Triple.weaken (Triple.ifRaise c _ _ _ _) (fun l h => ⟨h.1.1, h.1.2, limit_of_and_cond c l _ _ h.2⟩)
  exact Triple.ret c _ _ _ (fun l h => h)

/-- `timed_enable(...)`: all four parameters are verified before the single platform command is built -/
theorem timedEnable_cmds (c : Ctx) (s s' : Driver.St) (te hp ms pw : PyVal) (cmds : List Cmd)
    (h : doTimedEnable c s te hp ms pw = .ok (s', cmds)) : ∀ cmd ∈ cmds, CmdOK c cmd := by
  simp only [doTimedEnable, bind, Except.bind] at h
  cases h1 : vPulseMs c ms with
  | error e => simp [h1] at h
  | ok pd =>
    cases h2 : vPulsePower c pw with
    | error e => simp [h1, h2] at h
    | ok pp =>
      cases h3 : vTimedMs c te with
      | error e => simp [h1, h2, h3] at h
      | ok hd =>
        cases h4 : vHoldPower c hp with
        | error e => simp [h1, h2, h3, h4] at h
        | ok hh =>
          simp only [h1, h2, h3, h4, pure, Except.pure, Except.ok.injEq, Prod.mk.injEq] at h
          obtain ⟨_, rfl⟩ := h
          intro cmd hc
          simp only [List.mem_singleton] at hc
          subst hc
          exact ⟨call_of_triple _ _ (pulse_power_sound c) h2, call_of_triple _ _ (pulse_ms_sound c) h1,
            call_of_triple _ _ (hold_power_sound c) h4, call_of_triple _ _ (timed_enable_ms_sound c) h3⟩

/-- `_pulse_now` with verified values emits a hardware pulse, a re-verified timed enable, or the software-timed
enable whose hold power is the verified pulse power -/
theorem pulseNow_cmds (c : Ctx) (s s' : Driver.St) (pm pp : PyVal) (cmds : List Cmd) (hd : DurOK c pm) (hp : PowerOK c pp)
    (h : pulseNow c s pm pp = .ok (s', cmds)) : ∀ cmd ∈ cmds, CmdOK c cmd := by
  unfold pulseNow at h
  split at h
  · exact timedEnable_cmds c s s' _ _ _ _ cmds h
  · simp only [bind, Except.bind] at h
    cases h1 : pyCmp "<" (.int 0) pm with
    | error e => simp [h1] at h
    | ok a =>
      cases h2 : pyCmp "<=" pm (c.env "max_pulse") with
      | error e => simp [h1, h2] at h
      | ok b =>
        simp only [h1, h2] at h
        split at h
        · simp only [pure, Except.pure, Except.ok.injEq, Prod.mk.injEq] at h
          obtain ⟨_, rfl⟩ := h
          intro cmd hc; simp only [List.mem_singleton] at hc; subst hc
          exact ⟨hp, hd⟩
        · simp only [pure, Except.pure, Except.ok.injEq, Prod.mk.injEq] at h
          obtain ⟨_, rfl⟩ := h
          intro cmd hc; simp only [List.mem_singleton] at hc; subst hc
          exact ⟨hp, by simp⟩

/-- every platform command built by one `pulse / enable / timed_enable / disable` request respects the limits:
pulse length within max_pulse_ms, powers in [0,1] and within max_pulse_power / the effective hold limit, and a
permanent enable never with hold power 0 — for every configuration and every parameter value -/
theorem op_cmds_within_limits (c : Ctx) (s s' : Driver.St) (op : Op) (cmds : List Cmd)
    (h : doOp c s op = .ok (s', cmds)) : ∀ cmd ∈ cmds, CmdOK c cmd := by
  cases op with
  | pulse ms pw =>
    simp only [doOp, bind, Except.bind] at h
    cases h1 : vPulseMs c ms with
    | error e => simp [h1] at h
    | ok pm =>
      cases h2 : vPulsePower c pw with
      | error e => simp [h1, h2] at h
      | ok pp =>
        simp only [h1, h2] at h
        exact pulseNow_cmds c s s' pm pp cmds (call_of_triple _ _ (pulse_ms_sound c) h1)
          (call_of_triple _ _ (pulse_power_sound c) h2) h
  | enable ms pw hp =>
    simp only [doOp, bind, Except.bind] at h
    cases h1 : vPulseMs c ms with
    | error e => simp [h1] at h
    | ok pm =>
      cases h2 : vPulsePower c pw with
      | error e => simp [h1, h2] at h
      | ok pp =>
        cases h3 : vHoldPower c hp with
        | error e => simp [h1, h2, h3] at h
        | ok hh =>
          cases h4 : pyCmp "==" hh (.flt 0) with
          | error e => simp [h1, h2, h3, h4] at h
          | ok z =>
            cases z with
            | true => simp [h1, h2, h3, h4, throw, throwThe, MonadExceptOf.throw] at h
            | false =>
              simp only [h1, h2, h3, h4, pure, Except.pure, Except.ok.injEq, Prod.mk.injEq, Bool.false_eq_true,
                if_false] at h
              obtain ⟨_, rfl⟩ := h
              intro cmd hc; simp only [List.mem_singleton] at hc; subst hc
              exact ⟨call_of_triple _ _ (pulse_power_sound c) h2, by
                simp only [Bool.false_eq_true, if_false]
                exact ⟨call_of_triple _ _ (pulse_ms_sound c) h1, call_of_triple _ _ (hold_power_sound c) h3, h4⟩⟩
  | timedEnable te hp ms pw => exact timedEnable_cmds c s s' _ _ _ _ cmds h
  | disable =>
    simp only [doOp, doDisable, pure, Except.pure, Except.ok.injEq, Prod.mk.injEq] at h
    obtain ⟨_, rfl⟩ := h
    intro cmd hc; simp only [List.mem_singleton] at hc; subst hc; trivial
  | advance dt =>
    simp only [doOp, pure, Except.pure, Except.ok.injEq, Prod.mk.injEq] at h
    obtain ⟨_, rfl⟩ := h
    simp

/-- the whole command log of any sequence of requests and clock advances -/
def runOps (c : Ctx) : Driver.St → List Op → List (Nat × Cmd)
  | _, [] => []
  | s, op :: rest => (step c s op).2.2 ++ runOps c (step c s op).1 rest

/-- **C08, command log**: for every coil configuration, every starting state and every sequence of
pulse / enable / timed_enable / disable requests with arbitrary parameters interleaved with clock advances
(pending software timers firing in between), every command that reaches the platform driver respects the limits. -/
theorem cmd_within_limits (c : Ctx) (s : Driver.St) (ops : List Op) : ∀ tc ∈ runOps c s ops, CmdOK c tc.2 := by
  induction ops generalizing s with
  | nil => simp [runOps]
  | cons op rest ih =>
    intro tc h
    simp only [runOps, List.mem_append] at h
    rcases h with h | h
    · unfold step at h
      split at h
      · rename_i dt
        have := advanceTo_cmds 3 s (s.now + dt) tc h
        rw [this]; trivial
      · split at h
        · rename_i s1 o1 hop
          simp only [List.mem_map, List.mem_append] at h
          obtain ⟨cmd, hc, rfl⟩ := h
          rcases hc with hc | hc
          · exact op_cmds_within_limits c s s1 _ o1 hop cmd hc
          · rw [fireDue_cmds _ cmd hc]; trivial
        · simp only [List.mem_map] at h
          obtain ⟨cmd, hc, rfl⟩ := h
          rw [fireDue_cmds _ cmd hc]; trivial
    · exact ih _ tc h

/-- the state after any sequence of harness steps -/
def runState (c : Ctx) : Driver.St → List Op → Driver.St
  | s, [] => s
  | s, op :: rest => runState c (step c s op).1 rest

/-- one harness step (request + everything due, or a clock advance past any number of deadlines) keeps the
software-pulse invariant: a coil switched on by a software-timed pulse has its switch-off timer pending, strictly
in the future -/
theorem step_keeps_soft_timer (c : Ctx) (s : Driver.St) (op : Op) (h : TimerInv s) : TimerInv (step c s op).1 := by
  unfold step
  split
  · rename_i dt
    exact advanceTo_inv 3 s (s.now + dt) h.pre (by have := pending_le_two s; omega) (by omega)
  · split
    · rename_i s1 o1 hop
      exact (fireDue_inv s1 (doOp_pre c s s1 _ o1 h.pre hop).1).1
    · exact (fireDue_inv s h.pre).1

/-- **C08, software-timed pulses**: after every history of requests and clock advances, whenever the coil is on
because of a software-timed pulse, its `timed_disable` timer is registered for a strictly later instant — so the
pulse cannot outlive its timer "whatever else happens in between" (other pulses, enables, disables, the hold-limit
timer firing, same-instant coincidences). -/
theorem soft_pulse_always_has_timer (c : Ctx) (ops : List Op) : TimerInv (runState c {} ops) := by
  have key : ∀ (s : Driver.St), TimerInv s → TimerInv (runState c s ops) := by
    induction ops with
    | nil => intro s h; exact h
    | cons op rest ih => intro s h; exact ih _ (step_keeps_soft_timer c s op h)
  exact key {} (fun h => by simp at h)

/-- … and when the clock reaches that instant the coil is switched off: firing at a time at which `timed_disable`
is due emits `disable` and clears the software-pulse flag -/
theorem soft_timer_fires (s : Driver.St) (d : Nat) (h : s.timedDisable = some d) (hd : d ≤ s.now) :
    Cmd.disable ∈ (fireDue s).2 ∧ (fireDue s).1.softOn = false ∧ (fireDue s).1.timedDisable = none := by
  unfold fireDue
  simp only [h, hd, if_true, doDisable]
  cases hl : s.limitDue with
  | none => simp
  | some l => by_cases hc : l ≤ s.now <;> simp [hc]

/-- non-vacuity: a 300 ms software pulse on a coil with nothing configured, then 125 ms, then another, then 400 ms:
one enable, one re-armed timer, one disable exactly 300 ms after the second pulse -/
example :
    let c : Ctx := ⟨fun k => if k = "max_pulse_power" then .flt 1000000 else .none,
                    fun k => if k = "max_pulse" then .int 255 else .int 10⟩
    (runOps c {} [.pulse (.int 300) .none, .advance 125, .pulse (.int 300) .none, .advance 400]).map (fun tc => tc.1)
      = [0, 125, 425] := by decide

/-! ## The hand model does exactly what the source does

`Gen/DriverOps.lean` holds `Driver.pulse / enable / timed_enable / disable / _pulse_now / _enable_now /
_enable_limit_reached / _notify_psu_and_get_wait_ms / event_*` as translated from `mpf/devices/driver.py` on this run.
The theorems below tie `Model/Driver.lean` (about which everything above is proved) to that text. -/

/-- what configuration validation and the platform guarantee about the two values the timers are computed from -/
def ConfigSane (c : Ctx) : Prop :=
  (c.env "max_pulse").num.isSome = true ∧ NumOrNone (c.cfg "max_hold_duration")

theorem vPulseMs_int (c : Ctx) : ∀ x v, vPulseMs c x = .ok v → v.isInt = true :=
  fun _ _ h => (call_of_triple _ _ (pulse_ms_sound c) h).1

theorem vTimedMs_int (c : Ctx) : ∀ x v, vTimedMs c x = .ok v → v.isInt = true :=
  fun _ _ h => (call_of_triple _ _ (timed_enable_ms_sound c) h).1

/-- the translated method and the keyword arguments a request of the model stands for (`max_wait_ms` not given) -/
def srcOf : Op → Option (List ESt × List (String × PyVal))
  | .pulse ms pw => some (Gen.DriverOps.pulse, [("pulse_ms", ms), ("pulse_power", pw)])
  | .enable ms pw hp => some (Gen.DriverOps.enable, [("pulse_ms", ms), ("pulse_power", pw), ("hold_power", hp)])
  | .timedEnable te hp ms pw => some (Gen.DriverOps.timed_enable,
      [("timed_enable_ms", te), ("hold_power", hp), ("pulse_ms", ms), ("pulse_power", pw)])
  | .disable => some (Gen.DriverOps.disable, [])
  | .advance _ => none

/-- **C08, tie to the source**: for every configuration, every state of the two software timers, every request and
every argument value (None, bool, int, float, NaN, str), and whatever the PSU and the other collaborators answer,
running the *translated source* of the request and folding its calls on the platform driver and the delay manager over
the state gives exactly what the hand model computes: the same accept/refuse verdict, the same platform commands in the
same order with the same powers and durations, the same `timed_disable` and `enable_limit_reached` deadlines. -/
theorem requests_refine_source (c : Ctx) (ora : Oracle) (s : Driver.St) (op : Op) (prog : List ESt)
    (args : List (String × PyVal)) (hc : ConfigSane c) (hop : srcOf op = some (prog, args)) :
    hand s (doOp c s op) = gen s (callE c ora prog args) := by
  cases op with
  | pulse ms pw =>
    simp only [srcOf, Option.some.injEq, Prod.mk.injEq] at hop; obtain ⟨rfl, rfl⟩ := hop
    exact pulse_refines c ora s ms pw hc.1 (vPulseMs_int c) (vTimedMs_int c)
  | enable ms pw hp =>
    simp only [srcOf, Option.some.injEq, Prod.mk.injEq] at hop; obtain ⟨rfl, rfl⟩ := hop
    exact enable_refines c ora s ms pw hp hc.2
  | timedEnable te hp ms pw =>
    simp only [srcOf, Option.some.injEq, Prod.mk.injEq] at hop; obtain ⟨rfl, rfl⟩ := hop
    exact timed_enable_refines c ora s te hp ms pw (vPulseMs_int c) (vTimedMs_int c)
  | disable =>
    simp only [srcOf, Option.some.injEq, Prod.mk.injEq] at hop; obtain ⟨rfl, rfl⟩ := hop
    exact disable_refines c ora s
  | advance dt => simp [srcOf] at hop

/-- **a refused request does nothing** (in the source): when the translated `pulse / enable / timed_enable` raises
(limit exceeded, negative or ill-typed value, hold power 0), none of the calls it made before raising touched the
platform driver or the two timers — nothing was clamped or passed through. -/
theorem refused_request_has_no_effect_in_source (c : Ctx) (ora : Oracle) (s : Driver.St) (op : Op) (prog : List ESt)
    (args : List (String × PyVal)) (hc : ConfigSane c) (hop : srcOf op = some (prog, args)) (e : Err)
    (hr : (callE c ora prog args).2 = .error e) :
    (callE c ora prog args).1.foldl (applyEff s.now) ⟨s.timedDisable, s.limitDue, [], false⟩ = ⟨s.timedDisable, s.limitDue, [], false⟩ := by
  have h := requests_refine_source c ora s op prog args hc hop
  unfold gen at h
  rw [hr] at h
  cases hd : doOp c s op with
  | error x => rw [hd] at h; simp only [hand, Prod.mk.injEq] at h; exact h.2.symm
  | ok r => rw [hd] at h; simp [hand] at h

/-- **control events** (`event_pulse / event_enable / event_timed_enable / event_disable`, which carry arbitrary
parameters from configs and shows) do what the methods do: same commands, same timers, same verdict. -/
theorem control_events_refine_source (c : Ctx) (ora : Oracle) (s : Driver.St) (a b h t m : PyVal) :
    gen s (callE c ora Gen.DriverOps.event_pulse [("pulse_ms", a), ("pulse_power", b), ("max_wait_ms", m)]) =
      gen s (callE c ora Gen.DriverOps.pulse [("pulse_ms", a), ("pulse_power", b), ("max_wait_ms", m)]) ∧
    gen s (callE c ora Gen.DriverOps.event_enable [("pulse_ms", a), ("pulse_power", b), ("hold_power", h)]) =
      gen s (callE c ora Gen.DriverOps.enable [("pulse_ms", a), ("pulse_power", b), ("hold_power", h)]) ∧
    gen s (callE c ora Gen.DriverOps.event_timed_enable
        [("timed_enable_ms", t), ("hold_power", h), ("pulse_ms", a), ("pulse_power", b), ("max_wait_ms", m)]) =
      gen s (callE c ora Gen.DriverOps.timed_enable
        [("timed_enable_ms", t), ("hold_power", h), ("pulse_ms", a), ("pulse_power", b), ("max_wait_ms", m)]) ∧
    gen s (callE c ora Gen.DriverOps.event_disable []) = gen s (callE c ora Gen.DriverOps.disable []) :=
  ⟨event_pulse_is_pulse c ora s a b m, event_enable_is_enable c ora s a b h,
   event_timed_enable_is_timed_enable c ora s t h a b m, event_disable_is_disable c ora s⟩

/-- **the hold-limit callback** `_enable_limit_reached` (and the `timed_disable` callback, which is `disable` itself)
switches the coil off and leaves no limit timer behind, as `fireDue` of the model does. -/
theorem limit_callback_refines_source (c : Ctx) (ora : Oracle) (s : Driver.St) :
    hand s (.ok (doDisable s)) = gen s (callE c ora Gen.DriverOps.p_enable_limit_reached []) :=
  limit_reached_refines c ora s

/-- non-vacuity: a sane configuration exists, and on it the translated `pulse(300)` on a platform whose hardware pulses
stop at 255 ms arms the 300 ms software timer and sends the software-timed enable — computed by running the translated
source, not the hand model -/
example :
    let c : Ctx := ⟨fun k => if k = "max_pulse_power" then .flt 1000000 else .none,
                    fun k => if k = "max_pulse" then .int 255 else .int 10⟩
    ConfigSane c ∧
    (gen {} (callE c (fun _ => .none) Gen.DriverOps.pulse [("pulse_ms", .int 300)])) =
      (true, ⟨some 300, none, [.enable (.flt 1000000) (.int 0) (.flt 1000000) false], false⟩) := by
  refine ⟨⟨by decide, Or.inl (by decide)⟩, by decide⟩

/-- **entry-point closure** (regenerated from the whole source tree on every run): the only places under `mpf/`
(outside the platform packages) that actuate a platform driver directly are the three `Driver` paths modelled above
(`_pulse_now`, `_enable_now`, `timed_enable` — every coil device, coil player, ejector, flipper `sw_flip` and dual-wound
coil goes through them), the software-EOS repulse manager (which re-issues the verified settings of an installed rule,
C10) and `DigitalOutput` (not a coil: fixed power 1.0, no coil limits configured).  A new direct call site anywhere
else breaks this theorem. -/
theorem all_call_sites_known :
    ∀ site ∈ MpfVerif.Gen.HwDriverCallSites.table, site ∈
      [("mpf/devices/driver.py", "_enable_now", "enable"), ("mpf/devices/driver.py", "_pulse_now", "enable"),
       ("mpf/devices/driver.py", "_pulse_now", "pulse"), ("mpf/devices/driver.py", "timed_enable", "timed_enable"),
       ("mpf/core/platform_controller.py", "_repulse_on_eos_open", "enable"),
       ("mpf/core/platform_controller.py", "_repulse_on_eos_open", "pulse"),
       ("mpf/devices/digital_output.py", "enable", "enable"), ("mpf/devices/digital_output.py", "pulse", "pulse")] := by
  decide

end MpfVerif.C08
