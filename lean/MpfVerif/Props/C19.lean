import MpfVerif.Lemmas.BcpMarker
/-!
# C19 — BCP messages round-trip exactly and reassemble from any chunking

Property theorems only (helper lemmas live in `Lemmas/Bcp*.lean`, the model in `Model/Bcp.lean`).
-/
namespace MpfVerif.C19
open MpfVerif.Bcp

/-- Scalar parameters (the non-JSON branch): for every command without `?`, every parameter list with distinct names,
every string (any bytes — `%XX`, type-like prefixes, separators, newlines …), integer, float text, bool and None,
`decode (encode cmd kw) = (cmd, kw)` with the same types.  `kv.1 ≠ "json"` is the encoder's own branch condition
(a parameter named `json` goes through the JSON branch), not an excluded input. -/
theorem roundtrip_flat (cmd : Bytes) (kw : List (Bytes × Val)) (hc : 63 ∉ cmd) (hwf : KwWF kw)
    (hj : ∀ kv ∈ kw, kv.1 ≠ sJson) : decode (encodeFlat cmd kw) = .flat cmd kw := by
  unfold encodeFlat decode
  cases kw with
  | nil =>
    simp only [List.isEmpty_nil, if_true, splitFirst_none 63 cmd hc]
    simp [sJsonEq, splitAll, decodePairs]
  | cons kv r =>
    simp only [List.isEmpty_cons, Bool.false_eq_true, if_false, splitFirst_append 63 cmd _ hc, Option.getD_some]
    obtain ⟨k, v⟩ := kv
    have hk : ∀ b ∈ k, b < 256 := (hwf.1 (k, v) List.mem_cons_self).1
    have h61 : 61 ∉ quote k := fun hc => (QChar_ne (quote_chars k hk 61 hc)).2.2.2.1 rfl
    have hnj : sJsonEq.isPrefixOf (joinAmp (List.map encodePair ((k, v) :: r))) = false := by
      cases hp : sJsonEq.isPrefixOf (joinAmp (List.map encodePair ((k, v) :: r))) with
      | false => rfl
      | true =>
        exfalso
        obtain ⟨t, ht⟩ := joinAmp_cons (encodePair (k, v)) (List.map encodePair r)
        obtain ⟨t', ht'⟩ := List.isPrefixOf_iff_prefix.mp hp
        simp only [List.map_cons] at ht'
        rw [ht] at ht'
        have e1 : splitFirst 61 (sJsonEq ++ t') = (sJson, some t') := splitFirst_append 61 sJson t' (by decide)
        have e2 : splitFirst 61 (encodePair (k, v) ++ t) = (quote k, some (encodeValue v ++ t)) := by
          unfold encodePair
          simp only [List.append_assoc, List.cons_append]
          exact splitFirst_append 61 _ _ h61
        rw [ht', e2] at e1
        have hq : quote k = sJson := (Prod.mk.inj e1).1
        have := unquote_quote k hk
        rw [hq] at this
        have hu : unquote sJson = sJson := by decide
        exact hj (k, v) List.mem_cons_self (by rw [← this]; exact hu)
    simp only [hnj]
    rw [splitAll_joinAmp _ (by simp) (by
      intro p hp
      obtain ⟨kv, hkv, rfl⟩ := List.mem_map.mp hp
      exact encodePair_no_amp kv (hwf.1 kv hkv).1 (hwf.1 kv hkv).2)]
    rw [decodePairs_encode _ [] hwf (by intro kv _; rfl)]
    simp

/-- non-vacuity: a parameter list with the nasty strings satisfies the hypotheses and round-trips (kernel evaluation) -/
example : decode (encodeFlat [116] [([118], .str [49, 48, 48, 37, 52, 49]), ([97], .str [105, 110, 116, 58, 53]),
    ([98], .int (-17)), ([99], .bool true), ([100], .none), ([101], .str [38, 98, 121, 116, 101, 115, 61, 51])])
    = .flat [116] [([118], .str [49, 48, 48, 37, 52, 49]), ([97], .str [105, 110, 116, 58, 53]),
    ([98], .int (-17)), ([99], .bool true), ([100], .none), ([101], .str [38, 98, 121, 116, 101, 115, 61, 51])] := by
  decide

/-- An abstract JSON codec: the only facts about `json.dumps`/`json.loads` the BCP layer relies on. -/
structure JsonCodec (J : Type) where
  enc : J → Bytes
  dec : Bytes → Option J
  dec_enc : ∀ v, dec (enc v) = some v

/-- JSON branch (nested lists/dicts, or a parameter named `json`): the decoder hands exactly the JSON text produced by
the encoder to the JSON parser, whatever characters (`&`, `=`, `?`, `#`, `&bytes=` …) that text contains. -/
theorem roundtrip_json {J : Type} (C : JsonCodec J) (cmd : Bytes) (v : J) (hc : 63 ∉ cmd) :
    ∃ t, decode (encodeJson cmd (C.enc v)) = .json cmd t ∧ C.dec t = some v := by
  refine ⟨C.enc v, ?_, C.dec_enc v⟩
  unfold encodeJson decode
  simp only [splitFirst_append 63 cmd _ hc, Option.getD_some, prefix_self_append, if_true]
  simp [sJsonEq]

/-- an encoded scalar message is a single line: no raw newline -/
theorem encoded_is_one_line (cmd : Bytes) (kw : List (Bytes × Val)) (hc : 10 ∉ cmd) (hwf : KwWF kw) :
    10 ∉ encodeFlat cmd kw := by
  have key : ∀ ps : List Bytes, (∀ p ∈ ps, 10 ∉ p) → 10 ∉ joinAmp ps := by
    intro ps
    induction ps with
    | nil => simp [joinAmp]
    | cons x r ih =>
      intro h
      cases r with
      | nil => simpa [joinAmp] using h x List.mem_cons_self
      | cons y r' =>
        simp only [joinAmp, List.mem_append, List.mem_cons, not_or]
        exact ⟨h x List.mem_cons_self, by omega, ih (fun p hp => h p (List.mem_cons_of_mem _ hp))⟩
  unfold encodeFlat
  split
  · exact hc
  · simp only [List.mem_append, List.mem_cons, not_or]
    refine ⟨hc, by omega, key _ ?_⟩
    intro p hp
    obtain ⟨kv, hkv, rfl⟩ := List.mem_map.mp hp
    unfold encodePair
    simp only [List.mem_append, List.mem_cons, not_or]
    exact ⟨fun h => (QChar_ne (quote_chars _ (hwf.1 kv hkv).1 10 h)).2.2.2.2.2 rfl, by omega,
      fun h => (encodeValue_chars _ (hwf.1 kv hkv).2 10 h).2 rfl⟩

/-- Reassembly: the receiver's frames and final state depend only on the byte sequence, not on how it is split
into reads — for every chunking, down to single bytes, with and without payloads. -/
theorem reassembly (s : RSt) (chunks : List Bytes) : feedChunks s chunks = feed s chunks.flatten :=
  feedChunks_eq_feed s chunks

theorem reassembly_any_two (s : RSt) (c1 c2 : List Bytes) (h : c1.flatten = c2.flatten) :
    feedChunks s c1 = feedChunks s c2 := by
  rw [reassembly, reassembly, h]

/-- Messages are delivered completely and in the order sent: feeding the wire bytes of any list of frames
(lines without raw newline; a line sent without payload must not itself end in the payload marker) yields exactly
those frames and leaves the reader in its initial state. -/
theorem delivered_in_order (fs : List Frame) (h : ∀ f ∈ fs, 10 ∉ f.1 ∧ (f.2 = [] → NoMarker f.1)) :
    feed {} (fs.flatMap wire) = ({}, fs) := by
  induction fs with
  | nil => rfl
  | cons f r ih =>
    simp only [List.flatMap_cons]
    rw [feed_append, feed_wire f (h f List.mem_cons_self).1 (h f List.mem_cons_self).2]
    rw [ih (fun g hg => h g (List.mem_cons_of_mem _ hg))]
    simp

theorem delivered_in_order_chunked (fs : List Frame) (chunks : List Bytes)
    (h : ∀ f ∈ fs, 10 ∉ f.1 ∧ (f.2 = [] → NoMarker f.1)) (hc : chunks.flatten = fs.flatMap wire) :
    feedChunks {} chunks = ({}, fs) := by
  rw [reassembly, hc, delivered_in_order fs h]

/-- non-vacuity: an encoded line (even one whose string value contains `&bytes=3`) has no marker;
a JSON-looking line ending in `}` has none either -/
example : NoMarker (encodeFlat [116] [([101], .str [38, 98, 121, 116, 101, 115, 61, 51])]) := by
  unfold NoMarker; decide
example : NoMarker [116, 63, 106, 115, 111, 110, 61, 123, 34, 97, 34, 58, 32, 34, 120, 38, 98, 121, 116, 101, 115, 61, 51, 34, 125] := by
  unfold NoMarker; decide

/-- Known finding (recorded, not repairable without changing the wire format): a scalar parameter literally named
`bytes` whose value is a digit string is indistinguishable from the payload marker — the line `t?a=b&bytes=12`
is taken for `t?a=b` plus 12 payload bytes. -/
theorem reserved_key_bytes_witness :
    markerOf (encodeFlat [116] [([97], .str [98]), ([98, 121, 116, 101, 115], .str [49, 50])]) = some ([116, 63, 97, 61, 98], 12) := by
  decide

/-- an encoded scalar message whose parameters are not named `bytes` never looks like a line with a payload marker,
whatever its values contain (`&bytes=3` inside a string is quoted) -/
theorem encoded_has_no_marker (cmd : Bytes) (kw : List (Bytes × Val)) (hc : ∀ c ∈ cmd, c ≠ 38 ∧ c ≠ 63)
    (hwf : KwWF kw) (hb : ∀ kv ∈ kw, kv.1 ≠ sBytes) : NoMarker (encodeFlat cmd kw) :=
  encoded_no_marker cmd kw hc hwf hb

/-- **end to end**: any list of encoded scalar messages (no parameter named `bytes` or `json`, distinct names,
arbitrary values), each with or without a byte payload, written to the wire and read back under ANY chunking, is
delivered in order, each line decoding to exactly the command and parameters that were sent. -/
theorem stream_roundtrip (msgs : List ((Bytes × List (Bytes × Val)) × Bytes)) (chunks : List Bytes)
    (h : ∀ m ∈ msgs, (∀ c ∈ m.1.1, c ≠ 38 ∧ c ≠ 63 ∧ c ≠ 10) ∧ KwWF m.1.2 ∧
        (∀ kv ∈ m.1.2, kv.1 ≠ sBytes ∧ kv.1 ≠ sJson))
    (hc : chunks.flatten = (msgs.map (fun m => (encodeFlat m.1.1 m.1.2, m.2))).flatMap wire) :
    feedChunks {} chunks = ({}, msgs.map (fun m => (encodeFlat m.1.1 m.1.2, m.2))) ∧
      ∀ m ∈ msgs, decode (encodeFlat m.1.1 m.1.2) = .flat m.1.1 m.1.2 := by
  constructor
  · apply delivered_in_order_chunked _ _ _ hc
    intro f hf
    obtain ⟨m, hm, rfl⟩ := List.mem_map.mp hf
    obtain ⟨h1, h2, h3⟩ := h m hm
    exact ⟨encoded_is_one_line _ _ (fun hx => (h1 10 hx).2.2 rfl) h2,
      fun _ => encoded_has_no_marker _ _ (fun c hx => ⟨(h1 c hx).1, (h1 c hx).2.1⟩) h2 (fun kv hk => (h3 kv hk).1)⟩
  · intro m hm
    obtain ⟨h1, h2, h3⟩ := h m hm
    exact roundtrip_flat _ _ (fun hx => (h1 63 hx).2.1 rfl) h2 (fun kv hk => (h3 kv hk).2)

end MpfVerif.C19
