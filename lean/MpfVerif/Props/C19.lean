import MpfVerif.Lemmas.BcpMarker
import MpfVerif.Lemmas.BcpGen
import MpfVerif.Lemmas.BcpJson
import MpfVerif.Lemmas.BcpCodec
import MpfVerif.Lemmas.BcpMux
/-!
# C19 — BCP messages round-trip exactly and reassemble from any chunking

Property theorems only (helper lemmas live in `Lemmas/Bcp*.lean`, the model in `Model/Bcp.lean`).
-/
namespace MpfVerif.C19
open MpfVerif.Bcp
open MpfVerif.Gen

/-- Scalar parameters (the non-JSON branch): for every command without `?`, every parameter list with distinct names,
every string (any bytes — `%XX`, type-like prefixes, separators, newlines …), integer, float text, bool and None,
`decode (encode cmd kw) = (cmd, kw)` with the same types.  `kv.1 ≠ "json"` is the encoder's own branch condition
(a parameter named `json` goes through the JSON branch), not an excluded input. -/
theorem roundtrip_flat (cmd : Bytes) (kw : List (Bytes × Val)) (hc : 63 ∉ cmd) (hwf : KwWF kw)
    (hj : ∀ kv ∈ kw, kv.1 ≠ sJson) : decode (encodeFlat cmd kw) = .flat cmd kw := by
  unfold encodeFlat decode
  cases kw with
  | nil =>
    simp only [List.isEmpty_nil, if_true, splitFirst_none 63 cmd hc]
    simp [sJsonEq, splitAll, decodePairs]
  | cons kv r =>
    simp only [List.isEmpty_cons, Bool.false_eq_true, if_false, splitFirst_append 63 cmd _ hc, Option.getD_some]
    obtain ⟨k, v⟩ := kv
    have hk : ∀ b ∈ k, b < 256 := (hwf.1 (k, v) List.mem_cons_self).1
    have h61 : 61 ∉ quote k := fun hc => (QChar_ne (quote_chars k hk 61 hc)).2.2.2.1 rfl
    have hnj : sJsonEq.isPrefixOf (joinAmp (List.map encodePair ((k, v) :: r))) = false := by
      cases hp : sJsonEq.isPrefixOf (joinAmp (List.map encodePair ((k, v) :: r))) with
      | false => rfl
      | true =>
        exfalso
        obtain ⟨t, ht⟩ := joinAmp_cons (encodePair (k, v)) (List.map encodePair r)
        obtain ⟨t', ht'⟩ := List.isPrefixOf_iff_prefix.mp hp
        simp only [List.map_cons] at ht'
        rw [ht] at ht'
        have e1 : splitFirst 61 (sJsonEq ++ t') = (sJson, some t') := splitFirst_append 61 sJson t' (by decide)
        have e2 : splitFirst 61 (encodePair (k, v) ++ t) = (quote k, some (encodeValue v ++ t)) := by
          unfold encodePair
          simp only [List.append_assoc, List.cons_append]
          exact splitFirst_append 61 _ _ h61
        rw [ht', e2] at e1
        have hq : quote k = sJson := (Prod.mk.inj e1).1
        have := unquote_quote k hk
        rw [hq] at this
        have hu : unquote sJson = sJson := by decide
        exact hj (k, v) List.mem_cons_self (by rw [← this]; exact hu)
    simp only [hnj]
    rw [splitAll_joinAmp _ (by simp) (by
      intro p hp
      obtain ⟨kv, hkv, rfl⟩ := List.mem_map.mp hp
      exact encodePair_no_amp kv (hwf.1 kv hkv).1 (hwf.1 kv hkv).2)]
    rw [decodePairs_encode _ [] hwf (by intro kv _; rfl)]
    simp

/-- non-vacuity: a parameter list with the nasty strings satisfies the hypotheses and round-trips (kernel evaluation) -/
example : decode (encodeFlat [116] [([118], .str [49, 48, 48, 37, 52, 49]), ([97], .str [105, 110, 116, 58, 53]),
    ([98], .int (-17)), ([99], .bool true), ([100], .none), ([101], .str [38, 98, 121, 116, 101, 115, 61, 51])])
    = .flat [116] [([118], .str [49, 48, 48, 37, 52, 49]), ([97], .str [105, 110, 116, 58, 53]),
    ([98], .int (-17)), ([99], .bool true), ([100], .none), ([101], .str [38, 98, 121, 116, 101, 115, 61, 51])] := by
  decide

/-- An abstract JSON codec: the only facts about `json.dumps`/`json.loads` the BCP layer relies on. -/
structure JsonCodec (J : Type) where
  enc : J → Bytes
  dec : Bytes → Option J
  dec_enc : ∀ v, dec (enc v) = some v

/-- JSON branch (nested lists/dicts, or a parameter named `json`): the decoder hands exactly the JSON text produced by
the encoder to the JSON parser, whatever characters (`&`, `=`, `?`, `#`, `&bytes=` …) that text contains. -/
theorem roundtrip_json {J : Type} (C : JsonCodec J) (cmd : Bytes) (v : J) (hc : 63 ∉ cmd) :
    ∃ t, decode (encodeJson cmd (C.enc v)) = .json cmd t ∧ C.dec t = some v := by
  refine ⟨C.enc v, ?_, C.dec_enc v⟩
  unfold encodeJson decode
  simp only [splitFirst_append 63 cmd _ hc, Option.getD_some, prefix_self_append, if_true]
  simp [sJsonEq]

/-- an encoded scalar message is a single line: no raw newline -/
theorem encoded_is_one_line (cmd : Bytes) (kw : List (Bytes × Val)) (hc : 10 ∉ cmd) (hwf : KwWF kw) :
    10 ∉ encodeFlat cmd kw := by
  have key : ∀ ps : List Bytes, (∀ p ∈ ps, 10 ∉ p) → 10 ∉ joinAmp ps := by
    intro ps
    induction ps with
    | nil => simp [joinAmp]
    | cons x r ih =>
      intro h
      cases r with
      | nil => simpa [joinAmp] using h x List.mem_cons_self
      | cons y r' =>
        simp only [joinAmp, List.mem_append, List.mem_cons, not_or]
        exact ⟨h x List.mem_cons_self, by omega, ih (fun p hp => h p (List.mem_cons_of_mem _ hp))⟩
  unfold encodeFlat
  split
  · exact hc
  · simp only [List.mem_append, List.mem_cons, not_or]
    refine ⟨hc, by omega, key _ ?_⟩
    intro p hp
    obtain ⟨kv, hkv, rfl⟩ := List.mem_map.mp hp
    unfold encodePair
    simp only [List.mem_append, List.mem_cons, not_or]
    exact ⟨fun h => (QChar_ne (quote_chars _ (hwf.1 kv hkv).1 10 h)).2.2.2.2.2 rfl, by omega,
      fun h => (encodeValue_chars _ (hwf.1 kv hkv).2 10 h).2 rfl⟩

/-- Reassembly: the receiver's frames and final state depend only on the byte sequence, not on how it is split
into reads — for every chunking, down to single bytes, with and without payloads. -/
theorem reassembly (s : RSt) (chunks : List Bytes) : feedChunks s chunks = feed s chunks.flatten :=
  feedChunks_eq_feed s chunks

theorem reassembly_any_two (s : RSt) (c1 c2 : List Bytes) (h : c1.flatten = c2.flatten) :
    feedChunks s c1 = feedChunks s c2 := by
  rw [reassembly, reassembly, h]

/-- Messages are delivered completely and in the order sent: feeding the wire bytes of any list of frames
(lines without raw newline; a line sent without payload must not itself end in the payload marker) yields exactly
those frames and leaves the reader in its initial state. -/
theorem delivered_in_order (fs : List Frame) (h : ∀ f ∈ fs, 10 ∉ f.1 ∧ (f.2 = [] → NoMarker f.1)) :
    feed {} (fs.flatMap wire) = ({}, fs) := by
  induction fs with
  | nil => rfl
  | cons f r ih =>
    simp only [List.flatMap_cons]
    rw [feed_append, feed_wire f (h f List.mem_cons_self).1 (h f List.mem_cons_self).2]
    rw [ih (fun g hg => h g (List.mem_cons_of_mem _ hg))]
    simp

theorem delivered_in_order_chunked (fs : List Frame) (chunks : List Bytes)
    (h : ∀ f ∈ fs, 10 ∉ f.1 ∧ (f.2 = [] → NoMarker f.1)) (hc : chunks.flatten = fs.flatMap wire) :
    feedChunks {} chunks = ({}, fs) := by
  rw [reassembly, hc, delivered_in_order fs h]

/-- non-vacuity: an encoded line (even one whose string value contains `&bytes=3`) has no marker;
a JSON-looking line ending in `}` has none either -/
example : NoMarker (encodeFlat [116] [([101], .str [38, 98, 121, 116, 101, 115, 61, 51])]) := by
  unfold NoMarker; decide
example : NoMarker [116, 63, 106, 115, 111, 110, 61, 123, 34, 97, 34, 58, 32, 34, 120, 38, 98, 121, 116, 101, 115, 61, 51, 34, 125] := by
  unfold NoMarker; decide

/-- Known finding (recorded, not repairable without changing the wire format): a scalar parameter literally named
`bytes` whose value is a digit string is indistinguishable from the payload marker — the line `t?a=b&bytes=12`
is taken for `t?a=b` plus 12 payload bytes. -/
theorem reserved_key_bytes_witness :
    markerOf (encodeFlat [116] [([97], .str [98]), ([98, 121, 116, 101, 115], .str [49, 50])]) = some ([116, 63, 97, 61, 98], 12) := by
  decide

/-- an encoded scalar message whose parameters are not named `bytes` never looks like a line with a payload marker,
whatever its values contain (`&bytes=3` inside a string is quoted) -/
theorem encoded_has_no_marker (cmd : Bytes) (kw : List (Bytes × Val)) (hc : ∀ c ∈ cmd, c ≠ 38 ∧ c ≠ 63)
    (hwf : KwWF kw) (hb : ∀ kv ∈ kw, kv.1 ≠ sBytes) : NoMarker (encodeFlat cmd kw) :=
  encoded_no_marker cmd kw hc hwf hb

/-- **end to end**: any list of encoded scalar messages (no parameter named `bytes` or `json`, distinct names,
arbitrary values), each with or without a byte payload, written to the wire and read back under ANY chunking, is
delivered in order, each line decoding to exactly the command and parameters that were sent. -/
theorem stream_roundtrip (msgs : List ((Bytes × List (Bytes × Val)) × Bytes)) (chunks : List Bytes)
    (h : ∀ m ∈ msgs, (∀ c ∈ m.1.1, c ≠ 38 ∧ c ≠ 63 ∧ c ≠ 10) ∧ KwWF m.1.2 ∧
        (∀ kv ∈ m.1.2, kv.1 ≠ sBytes ∧ kv.1 ≠ sJson))
    (hc : chunks.flatten = (msgs.map (fun m => (encodeFlat m.1.1 m.1.2, m.2))).flatMap wire) :
    feedChunks {} chunks = ({}, msgs.map (fun m => (encodeFlat m.1.1 m.1.2, m.2))) ∧
      ∀ m ∈ msgs, decode (encodeFlat m.1.1 m.1.2) = .flat m.1.1 m.1.2 := by
  constructor
  · apply delivered_in_order_chunked _ _ _ hc
    intro f hf
    obtain ⟨m, hm, rfl⟩ := List.mem_map.mp hf
    obtain ⟨h1, h2, h3⟩ := h m hm
    exact ⟨encoded_is_one_line _ _ (fun hx => (h1 10 hx).2.2 rfl) h2,
      fun _ => encoded_has_no_marker _ _ (fun c hx => ⟨(h1 c hx).1, (h1 c hx).2.1⟩) h2 (fun kv hk => (h3 kv hk).1)⟩
  · intro m hm
    obtain ⟨h1, h2, h3⟩ := h m hm
    exact roundtrip_flat _ _ (fun hx => (h1 63 hx).2.1 rfl) h2 (fun kv hk => (h3 kv hk).2)

/-! ## tie to the source: the tables regenerated from `bcp_socket_client.py` (`Gen/BcpTables.lean`) -/

/-- The table-driven encoder, decoder and marker test (`Model/BcpGen.lean`: interpreters of the branch tables that
`translate/bcp_tables.py` reads from the AST of `encode_command_string` / `decode_command_string` / `BYTE_MARKER` on every
check) ARE the hand model's functions — so `roundtrip_flat`, `stream_roundtrip` … speak about the prefixes, slice offsets,
chain order, separators and `safe` argument found in the source now.  A change of any of them regenerates the tables and
this theorem (or `tables_consistent`) no longer checks. -/
theorem tables_refine_model :
    (∀ cmd kw, encodeFlatT cmd kw = some (encodeFlat cmd kw)) ∧ (∀ line, decodeT line = decode line) ∧
      (∀ raw, decodeValueT raw = decodeValue raw) ∧ (∀ v, encodeValueT v = encodeValue v) ∧
      (∀ line, markerOfT line = markerOf line) :=
  ⟨encodeFlatT_eq, decodeT_eq, decodeValueT_eq, encodeValueT_eq, markerOfT_eq⟩

/-- The tables agree with each other (pure table facts, by evaluation): every prefix the encoder puts in front of a typed
value is recognised by the decoder — `startswith` with a slice offset equal to the prefix length and the conversion of
that type; the `bool` prefix followed by the lower-cased `str(True)` / `str(False)` is an equality arm giving that
constant; the bare `NoneType:` literal is an equality arm giving `None`; in the encoder `bool` is tested before `int`
(a bool is an int); `quote` is called with `safe=''` for values and names; the decoder's `json=` test, its slice bounds
and the encoder's `'json={}'` format agree (so the slice comparison is a prefix test); the payload marker is `&bytes=`. -/
theorem tables_consistent :
    (∀ e ∈ BcpTables.encChain, e.2.2 = true → e.1 ≠ "bool" →
      ∃ d ∈ BcpTables.decChain, d.1 = "startswith" ∧ d.2.1 = e.2.1 ∧ d.2.2.1 = e.2.1.length ∧ d.2.2.2 = e.1) ∧
    (∀ e ∈ BcpTables.encChain, e.1 = "bool" → e.2.2 = true ∧
      (∃ d ∈ BcpTables.decChain, d.1 = "lower==" ∧ d.2.1 = e.2.1 ++ toLower sTrue ∧ d.2.2.2 = "True") ∧
      (∃ d ∈ BcpTables.decChain, d.1 = "lower==" ∧ d.2.1 = e.2.1 ++ toLower sFalse ∧ d.2.2.2 = "False")) ∧
    (∀ e ∈ BcpTables.encChain, e.2.2 = false →
      ∃ d ∈ BcpTables.decChain, d.1 = "==" ∧ d.2.1 = e.2.1 ∧ d.2.2.2 = "None") ∧
    (BcpTables.encChain.map (·.1)).idxOf "bool" < (BcpTables.encChain.map (·.1)).idxOf "int" ∧
    (BcpTables.encChain.map (·.1)) = ["bool", "int", "float", "NoneType"] ∧
    BcpTables.quoteSafeValue = [] ∧ BcpTables.quoteSafeKey = [] ∧
    BcpTables.jsonTest = BcpTables.jsonFormat ∧ BcpTables.jsonTestLo = 0 ∧
    BcpTables.jsonTestHi = BcpTables.jsonTest.length ∧ BcpTables.jsonDrop = BcpTables.jsonFormat.length ∧
    BcpTables.jsonFormat = BcpTables.jsonKey ++ BcpTables.partSep ∧
    BcpTables.byteMarker = BcpTables.splitSep ++ sBytes ++ BcpTables.partSep := by
  refine ⟨?_, ?_, ?_, by decide, by decide, by decide, by decide, by decide, by decide, by decide, by decide, by decide,
    by decide⟩
  all_goals
    intro e he
    simp only [BcpTables.encChain, List.mem_cons, List.not_mem_nil, or_false] at he
    rcases he with rfl | rfl | rfl | rfl <;> decide

/-- the round trip stated on the table-driven functions directly: what the tables of the source encode, the tables of the
source decode back to the same command, names, values and types -/
theorem roundtrip_flat_tables (cmd : Bytes) (kw : List (Bytes × Val)) (hc : 63 ∉ cmd) (hwf : KwWF kw)
    (hj : ∀ kv ∈ kw, kv.1 ≠ BcpTables.jsonKey) :
    ∃ line, encodeFlatT cmd kw = some line ∧ decodeT line = .flat cmd kw :=
  ⟨encodeFlat cmd kw, encodeFlatT_eq cmd kw, by rw [decodeT_eq]; exact roundtrip_flat cmd kw hc hwf hj⟩

/-- non-vacuity: the table-driven functions run in the kernel -/
example : (encodeFlatT [116] [([97], .bool true), ([98], .int 5), ([99], .none), ([100], .str [105, 110, 116, 58, 53])]).map decodeT
    = some (.flat [116] [([97], .bool true), ([98], .int 5), ([99], .none), ([100], .str [105, 110, 116, 58, 53])]) := by
  decide

/-! ## the JSON branch with a concrete codec (`Model/BcpJson.lean`) -/

/-- `json.dumps` / `json.loads` as modelled concretely (null / true / false / ints of any size / float texts / strings over
all Unicode scalar values with CPython's `ensure_ascii` escapes and surrogate pairs / lists / dicts with str keys, nested
to any depth) form a codec: the abstract hypothesis `dec (enc v) = some v` of `roundtrip_json` is now a theorem
(`jdec_jenc`) for every well-formed value. -/
theorem json_codec_concrete (v : J) (h : v.WF) : jdec (jenc v) = some v := jdec_jenc v h

/-- JSON branch, concretely: a message whose parameters need JSON (nested lists / dicts, or a parameter named `json`)
decodes back to the same command and — through the concrete parser — to the same value tree with the same types. -/
theorem roundtrip_json_concrete (cmd : Bytes) (v : J) (hc : 63 ∉ cmd) (h : v.WF) :
    ∃ t, decode (encodeJson cmd (jenc v)) = .json cmd t ∧ jdec t = some v := by
  refine ⟨jenc v, ?_, jdec_jenc v h⟩
  unfold encodeJson decode
  simp only [splitFirst_append 63 cmd _ hc, Option.getD_some, prefix_self_append, if_true]
  simp [sJsonEq]

/-- a JSON-encoded message is a single line of printable ASCII after the command: no raw newline -/
theorem encoded_json_is_one_line (cmd : Bytes) (v : J) (hc : 10 ∉ cmd) (h : v.WF) : 10 ∉ encodeJson cmd (jenc v) := by
  unfold encodeJson
  simp only [List.mem_append, List.mem_cons, not_or]
  exact ⟨hc, by omega, by decide, jenc_one_line v h⟩

/-- `MpfJSONEncoder.default(o) = str(o)`: an object `json` does not know is written as the JSON string of its `str()` —
it comes back as that string (not as the object; such values are outside the property's value types). -/
theorem json_unknown_object_becomes_str (t : List Nat) (h : ∀ c ∈ t, Scalar c) :
    jdec (jencOther t) = some (.str t) := by
  rw [jencOther_is_str]; exact jdec_jenc (.str t) (by simpa [J.WF] using h)

/-- non-vacuity: a nested parameter dictionary with quotes, a newline, a non-BMP character, `&bytes=3` inside a string -/
example : jdec (jenc (.obj [([97], .arr [.int (-5), .null, .flt [49, 101, 43, 50, 50]]),
    ([98], .str [34, 10, 128512, 38, 98, 121, 116, 101, 115, 61, 51]), ([99], .obj [])])) =
    some (.obj [([97], .arr [.int (-5), .null, .flt [49, 101, 43, 50, 50]]),
    ([98], .str [34, 10, 128512, 38, 98, 121, 116, 101, 115, 61, 51]), ([99], .obj [])]) := by rfl

/-! ## tie to the source: the two functions translated whole (`Gen/BcpCodec.lean`, interpreter `Model/PyStr.lean`) -/

/-- **`decode_command_string` and `encode_command_string` as written in the source ARE the model's `decode` /
`encodeFlat` / `encodeJson`.**  `translate/bcp_codec.py` turns the two Python functions, statement by statement, into data
(`Gen/BcpCodec.lean`, regenerated on every check) for the fixed interpreter `Model/PyStr.lean`, whose string primitives
(`quote(·, '')`, `unquote`, `replace('+', ' ')`, `lower`, `startswith`, slices, `partition`, `split`, `str`, `isinstance`
with bool-is-an-int, `int`, `urlsplit`, `urlunparse`) are the hand model's functions and `json.dumps` / `json.loads` the
abstract codec.  Running the translated decoder on ANY byte string gives exactly `decode`; running the translated encoder
on ANY command and ANY parameter list (scalars and nested values, `dumps` arbitrary) gives exactly
`encodeJson cmd (dumps args)` when some value is nested or a parameter is called `json`, and `encodeFlat` on the scalars
otherwise.  No hypotheses.  Hence `roundtrip_flat`, `roundtrip_json*`, `encoded_is_one_line`, `stream_roundtrip` speak
about the source text; a change of either function changes the generated program and this proof no longer checks. -/
theorem codec_refines_source :
    (∀ line : Bytes, PyStr.runDecode Gen.BcpCodec.decodeProg line = decode line) ∧
    (∀ (dumps : List (Bytes × PyStr.Arg) → Bytes) (cmd : Bytes) (args : List (Bytes × PyStr.Arg)),
      PyStr.runEncode dumps Gen.BcpCodec.encodeProg cmd args = some (PyStr.encode dumps cmd args)) :=
  ⟨PyStr.decode_refines_source, PyStr.encode_refines_source⟩

/-- the round trip stated on the translated source functions themselves: what the interpreted `encode_command_string`
writes for scalar parameters, the interpreted `decode_command_string` reads back as the same command, names, values, types -/
theorem roundtrip_flat_source (dumps : List (Bytes × PyStr.Arg) → Bytes) (cmd : Bytes) (kw : List (Bytes × Val))
    (hc : 63 ∉ cmd) (hwf : KwWF kw) (hj : ∀ kv ∈ kw, kv.1 ≠ sJson) :
    ∃ line, PyStr.runEncode dumps Gen.BcpCodec.encodeProg cmd (kw.map (fun kv => (kv.1, PyStr.Arg.scalar kv.2))) = some line ∧
      PyStr.runDecode Gen.BcpCodec.decodeProg line = .flat cmd kw := by
  refine ⟨encodeFlat cmd kw, ?_, ?_⟩
  · rw [PyStr.encode_refines_source]
    have h2 : ∀ l : List (Bytes × Val), PyStr.scalarsOf (l.map (fun kv => (kv.1, PyStr.Arg.scalar kv.2))) = l := by
      intro l
      induction l with
      | nil => rfl
      | cons kv r ih => simp [PyStr.scalarsOf, ih]
    have h1 : ∀ l : List (Bytes × Val), (∀ kv ∈ l, kv.1 ≠ sJson) →
        PyStr.needsJson (l.map (fun kv => (kv.1, PyStr.Arg.scalar kv.2))) = false := by
      intro l hl
      induction l with
      | nil => rfl
      | cons kv r ih =>
        have hk : kv.1 ≠ sJson := hl kv List.mem_cons_self
        have := ih (fun x hx => hl x (List.mem_cons_of_mem _ hx))
        simp [PyStr.needsJson, PyStr.isNested, hk, this]
    simp [PyStr.encode, h1 kw hj, h2 kw]
  · rw [PyStr.decode_refines_source]; exact roundtrip_flat cmd kw hc hwf hj

/-! ## several clients, dispatch (`BcpTransportManager._receive_loop`, `BcpInterface.process_bcp_message`) -/

/-- Any number of clients whose reads interleave in ANY order and ANY chunking: what a client gets dispatched depends only
on its own byte sequence — if client `c` sent the frames `fs` (lines without raw newline; no marker-like line without
payload), then exactly the frames of `fs` with a registered command are dispatched for `c`, in the order sent, each with
its own payload and no other; frames with an unknown command are skipped and nothing after them is lost; `c`'s reader is
back in its initial state.  Other clients' bytes (complete, torn or garbage) cannot change this. -/
theorem clients_dispatched_in_order (known : Bytes → Bool) (sched : List (Nat × Bytes)) (c : Nat) (fs : List Frame)
    (h : ∀ f ∈ fs, 10 ∉ f.1 ∧ (f.2 = [] → NoMarker f.1)) (hb : bytesOf c sched = fs.flatMap wire) :
    framesOf c (dispatch known (muxRun (fun _ => {}) sched).2) = fs.filter (fun f => known (splitFirst 63 f.1).1) ∧
      (muxRun (fun _ => {}) sched).1 c = {} := by
  have k := muxRun_client (fun _ => {}) sched c
  rw [hb, delivered_in_order fs h] at k
  rw [framesOf_dispatch, k.1]
  exact ⟨rfl, k.2⟩

/-- non-vacuity: two clients, reads interleaved byte-wise in part; client 1 sends `a`, an unknown `zz`, then `b` with a
2-byte payload; client 2 sends a torn line.  Client 1's known frames arrive in order. -/
example : framesOf 1 (dispatch (fun cmd => cmd.length == 1)
    (muxRun (fun _ => {}) [(1, [97]), (2, [120, 63]), (1, [10, 122, 122]), (2, [121]), (1, [10, 98, 38, 98, 121, 116, 101, 115, 61, 50, 10, 7]),
      (1, [10])]).2) = [([97], []), ([98], [7, 10])] := by decide

end MpfVerif.C19
