import MpfVerif.Lemmas.QueueEvent
/-!
# C02 — Queue, relay and boolean events complete exactly once and in order

Property theorems only.  Queue events: `Model/QueueEvent.lean` (dispatch tasks, `QueuedEvent` cells, every scheduler
choice an explicit input); relay / boolean events: `_run_handlers` of `Model/EventBus.lean`.  `progs` (what every
handler and callback does, incl. kwargs, conditions, coroutine handlers, wait futures, `stop()`) is universally quantified; schedules are arbitrary because every theorem is about one
arbitrary step from an arbitrary state.
-/
namespace MpfVerif.C02
open MpfVerif.QueueEvent

/-- Order and no overlap inside one queue event: a scheduler step of a dispatch task invokes the handlers of a prefix
`pre` of the remaining snapshot whose condition holds on the merged kwargs (`eligible`: posted kwargs overridden by the
handler's own), in snapshot (= priority) order; it either reaches the end — then it logs the completion callback
exactly once and is done — or it stops right behind the first handler that left its wait registered and sleeps, the
remaining handlers `post` untouched and no callback logged.  So handler i+1 never starts in the step in which handler
i registered a wait (and, by `blocked_until_cleared`, in no later step before that wait is cleared). -/
theorem seq_order (progs : Nat → Prog) (t : Task) (hs : List Handler) (st : St) :
    ∃ pre post, hs = pre ++ post ∧
      callKeys (runTask progs t hs st).1.log = callKeys st.log ++ (eligible t.kw pre).map (·.key) ∧
      (((runTask progs t hs st).2.done = true ∧ post = [] ∧ (runTask progs t hs st).2.awaiting = none ∧
          cbs (runTask progs t hs st).1.log = cbs st.log ++ [t.sn]) ∨
       ((runTask progs t hs st).2.done = t.done ∧ eligible t.kw pre ≠ [] ∧ (runTask progs t hs st).2.rest = some post ∧
          (∃ c e, (runTask progs t hs st).2.awaiting = some (c, e)) ∧
          cbs (runTask progs t hs st).1.log = cbs st.log)) :=
  runTask_spec progs t hs st

/-- A sleeping task cannot be resumed by any scheduler while the `asyncio.Event` it sleeps on is not set. -/
theorem blocked_until_cleared (progs : Nat → Prog) (st : St) (t : Task) (hs : List Handler) (c e : Nat)
    (hr : t.rest = some hs) (ha : t.awaiting = some (c, e)) (hne : st.setEvts.contains e = false) :
    stepTask progs st t = none := by
  unfold stepTask
  split
  · rfl
  · simp [hr, ha]; simpa using hne

/-- `clear` on the cell a dispatcher sleeps on sets exactly that dispatcher's event: the task is enabled again
(no lost wake-up when every handler has its own cell). -/
theorem clear_enables (st : St) (c e : Nat) (hw : (getCell st.cells c).waiter = true)
    (he : (getCell st.cells c).event = some e) : (clearCell st c).setEvts.contains e = true := by
  unfold clearCell
  simp [hw, he]

/-- The completion callback fires at most once, and exactly when the task finishes: a finished task (and a task
cancelled by `EventManager.stop()`) can never be stepped again; a step of an unfinished task either finishes it and logs
its callback once, or logs no callback. -/
theorem cb_once (progs : Nat → Prog) (st : St) (t : Task) :
    (t.done = true ∨ t.cancelled = true → stepTask progs st t = none) ∧
    (∀ st' t', stepTask progs st t = some (st', t') →
      (t'.done = true ∧ cbs st'.log = cbs st.log ++ [t.sn]) ∨ (t'.done = false ∧ cbs st'.log = cbs st.log)) := by
  refine ⟨fun hd => by rcases hd with hd | hd <;> simp [stepTask, hd], ?_⟩
  intro st' t' h
  unfold stepTask at h
  by_cases hd : (t.done || t.cancelled) = true
  · simp [hd] at h
  · have hd' : t.done = false := by
      cases hx : t.done <;> simp [hx] at hd ⊢
    have hd2 : (t.done || t.cancelled) = false := by simpa using hd
    simp only [hd2, Bool.false_eq_true, if_false] at h
    have key : ∀ (t0 : Task) (hs : List Handler), t0.done = false → t0.sn = t.sn →
        runTask progs t0 hs st = (st', t') →
        (t'.done = true ∧ cbs st'.log = cbs st.log ++ [t.sn]) ∨ (t'.done = false ∧ cbs st'.log = cbs st.log) := by
      intro t0 hs h0 hsn hrun
      obtain ⟨pre, post, _, _, hcase⟩ := runTask_spec progs t0 hs st
      rw [hrun] at hcase
      rcases hcase with ⟨hdn, _, _, hc⟩ | ⟨hdn, _, _, _, hc⟩
      · exact Or.inl ⟨hdn, by rw [hc, hsn]⟩
      · exact Or.inr ⟨by rw [hdn, h0], hc⟩
    cases hr : t.rest with
    | none =>
      simp only [hr, Option.some.injEq] at h
      exact key t _ hd' rfl h
    | some hs =>
      simp only [hr] at h
      cases ha : t.awaiting with
      | none => simp [ha] at h
      | some ce =>
        obtain ⟨c, e⟩ := ce
        simp only [ha] at h
        by_cases hset : st.setEvts.contains e = true
        · simp only [hset, if_true, Option.some.injEq] at h
          exact key { sn := t.sn, ev := t.ev, cb := t.cb, passed := t.passed, kw := t.kw, cancelled := t.cancelled,
                      rest := some hs, done := t.done } hs hd' rfl h
        · have hset' : st.setEvts.contains e = false := by simpa using hset
          rw [hset'] at h
          simp at h

/-- A coroutine handler (`add_async_handler`) that ends — by returning **or because its task was cancelled** (the future
it awaited was cancelled, it raised `CancelledError`, somebody cancelled the task) — clears the wait registered for it:
`_async_handler_done` is then exactly `queue.clear()`, so the dispatcher sleeping on that cell is enabled again
(`clear_enables`).  Only a coroutine that raised another exception leaves the wait in place. -/
theorem async_done_clears (st : St) (c e : Nat) (o : Outcome) (ho : o ≠ .raised)
    (hw : (getCell st.cells c).waiter = true) (he : (getCell st.cells c).event = some e) :
    asyncDone st c o = clearCell st c ∧ (asyncDone st c o).setEvts.contains e = true ∧
      (getCell (asyncDone st c o).cells c).waiter = false := by
  have hc : c < st.cells.length := by
    by_cases hc : c < st.cells.length
    · exact hc
    · have : getCell st.cells c = {} := by
        unfold getCell
        simp [List.getD, List.getElem?_eq_none (by omega : st.cells.length ≤ c)]
      rw [this] at hw
      cases hw
  have h1 : asyncDone st c o = clearCell st c := by cases o <;> simp_all [asyncDone]
  refine ⟨h1, ?_, ?_⟩
  · rw [h1]; exact clear_enables st c e hw he
  · rw [h1]
    unfold clearCell
    simp only [hw, he, Bool.not_true, Bool.false_eq_true, if_false]
    rw [getCell_setCell st.cells c _ hc]

/-- `EventManager.stop()`: every dispatch task that exists at that moment is finished or cancelled, and a cancelled task
can never be stepped again in any later state — none of its remaining handlers and not its callback will run; queue
events posted after `stop()` are refused. -/
theorem stop_cancels (progs : Nat → Prog) (st st' : St) (own passed : Option Nat) (ev cb : Nat) (pass : Bool) (kw : Kw) :
    (∀ t ∈ (stopAll st).tasks, stepTask progs st' t = none) ∧ (stopAll st).stopped = true ∧
    (runAct own passed (stopAll st) (.postQueue ev cb pass kw)).pending = st.pending := by
  refine ⟨?_, rfl, by simp [runAct, stopAll]⟩
  intro t ht
  simp only [stopAll, List.mem_map] at ht
  obtain ⟨t0, _, rfl⟩ := ht
  by_cases hd : t0.done = true <;> simp [stepTask, hd]

/-- every step of a task makes progress: it consumes at least one handler of the snapshot or finishes the task -/
theorem step_progress (progs : Nat → Prog) (t : Task) (hs : List Handler) (st : St) :
    (runTask progs t hs st).2.done = true ∨
      ∃ post, (runTask progs t hs st).2.rest = some post ∧ post.length < hs.length := by
  obtain ⟨pre, post, hsplit, _, hcase⟩ := runTask_spec progs t hs st
  rcases hcase with ⟨hd, _⟩ | ⟨_, hp, hr, _⟩
  · exact Or.inl hd
  · refine Or.inr ⟨post, hr, ?_⟩
    rw [hsplit, List.length_append]
    have : 0 < pre.length := by
      cases pre with
      | nil => simp [eligible] at hp
      | cons a r => simp
    omega

/-- Relay events: the kwargs handed to the callback are the left fold of the handlers' returned dicts over the posted
kwargs, and every handler is called with the fold so far (merged with its own kwargs) — for all handler programs. -/
theorem relay_fold (progs : Nat → EventBus.Prog) (ev sn : Nat) (hs : List EventBus.Handler) (c : EventBus.Core)
    (kw : EventBus.Kw) :
    (EventBus.runHandlers progs ev sn .relay hs c kw .none).1.log = c.log ++ EventBus.relayCalls progs ev sn hs kw ∧
    (EventBus.runHandlers progs ev sn .relay hs c kw .none).2.1 = EventBus.relayFold progs hs kw :=
  EventBus.runHandlers_relay progs ev sn hs c kw .none

/-- Boolean events: handlers are called up to and including the first one that returns `False`, none after it, and
then (and only then) the callback's kwargs carry `ev_result = False`. -/
theorem boolean_stops (progs : Nat → EventBus.Prog) (ev sn : Nat) (hs : List EventBus.Handler) (c : EventBus.Core)
    (kw : EventBus.Kw) :
    (EventBus.runHandlers progs ev sn .boolean hs c kw .none).1.log = c.log ++ EventBus.boolCalls progs ev sn kw hs ∧
    (EventBus.runHandlers progs ev sn .boolean hs c kw .none).2.1 =
      (if EventBus.boolStops progs kw hs then EventBus.kwSet kw EventBus.evResult (.bool false) else kw) :=
  EventBus.runHandlers_boolean progs ev sn hs c kw .none

/-! ### non-vacuity -/

def exProgs : Nat → Prog
  | 1 => ⟨[.wait], false⟩          -- waits, cleared later by a timer
  | 2 => ⟨[], false⟩
  | 3 => ⟨[], true⟩                -- coroutine handler
  | 4 => ⟨[.wait, .postQueue 2 8 true []], false⟩   -- the Mode.start / use_wait_queue pattern
  | 8 => ⟨[.clearPassed], false⟩
  | _ => ⟨[], false⟩

def exSt : St := dispatch (runActs none none {} [.add 1 ⟨10, 0, 1, [], none⟩, .add 1 ⟨11, 2, 2, [(1, 7), (2, 3)], some (1, 7)⟩,
  .add 1 ⟨12, -1, 3, [], none⟩, .add 1 ⟨13, -2, 4, [], none⟩, .add 1 ⟨15, 1, 2, [], some (1, 6)⟩, .add 2 ⟨14, 0, 2, [], none⟩, .postQueue 1 9 false [(1, 5)]])

/-- a schedule: start; blocked; clear cell 1; resume (coroutine handler waits); clear; resume (handler 13 waits and
posts the inner event with its cell); inner event runs, its callback clears the outer cell; outer finishes -/
example : (do
    let s1 ← resume exProgs exSt 0
    let s2 ← resume exProgs (clearCell s1 1) 0
    let s3 ← resume exProgs (clearCell s2 2) 0
    let s4 ← callbacks exProgs 10 s3
    let s5 ← resume exProgs s4 1
    let s6 ← resume exProgs s5 0
    pure (s6.log.map showObs, (resume exProgs s1 0).isNone, (resume exProgs s6 0).isNone)) =
    some (["c11.1.0.0{1=7,2=3}", "c10.1.0.1{1=5}", "a1.0.2{1=5}", "c13.1.0.3{1=5}", "c14.2.1.4{}", "b8.1{}", "b9.0{1=5}"],
      true, true) := by decide

/-- the coroutine handler's task ends cancelled: same schedule, the dispatcher goes on -/
example : (do
    let s1 ← resume exProgs exSt 0
    let s2 ← resume exProgs (clearCell s1 1) 0
    let s3 ← resume exProgs (asyncDone s2 2 .cancelled) 0
    pure (s3.log.length, (resume exProgs (asyncDone s2 2 .raised) 0).isNone)) = some (4, true) := by decide

/-- stop() while the first handler's wait is outstanding: the task is dead although its wait gets cleared afterwards -/
example : (do
    let s1 ← resume exProgs exSt 0
    let s2 := clearCell (runActs none none s1 [.stop, .postQueue 1 9 false []]) 1
    pure ((resume exProgs s2 0).isNone, s2.pending.length, (applyOp exProgs s2 .dispatch).map (·.tasks.length))) =
    some (true, 0, some 1) := by decide

end MpfVerif.C02
