import MpfVerif.Lemmas.Credits
import MpfVerif.Lemmas.CreditsGen
import MpfVerif.Gen.Credits
/-!
# C20 — credits: the balance follows the pricing table and stays within bounds

Model: `Model/Credits.lean` (integer credit units; hand-written, tied to `mpf/modes/credits/code/credits.py` by the
correspondence run).  `WF c` = prices and coin values are whole multiples of the computed credit unit and no unit
carries a negative tier bonus.  One step = the request (`act`) followed by the clock (`tick`).
-/
namespace MpfVerif.C20
open MpfVerif.Credits

/-- **bounds**: for every well-formed configuration and every history of coins, service credits, credit events,
start requests, ball/game ends, clock advances (expirations), play-mode toggles and resets, from any state within the
bounds: 0 ≤ balance, and balance ≤ max_credits · units-per-game whenever a maximum is configured. -/
theorem balance_bounds (c : Cfg) (h : WF c = true) (s : St) (hs : Good c s) (ops : List Op) :
    0 ≤ (run c s ops).units ∧ (maxUnits c ≠ 0 → (run c s ops).units ≤ maxUnits c) :=
  (run_good c h ops s hs).1

/-- the same from power-up (credit or free play at boot) -/
theorem balance_bounds_from_boot (c : Cfg) (h : WF c = true) (ops : List Op) :
    0 ≤ (run c (init c) ops).units ∧ (maxUnits c ≠ 0 → (run c (init c) ops).units ≤ maxUnits c) :=
  balance_bounds c h (init c) (init_good c) ops

/-- **ledger** (balance formula, tier part left to `tier_bonus_is_greedy`): after every history from power-up the
balance is exactly  units bought with accepted coins + tier bonus + units granted by service credits / credit events
− units deducted for started players − units dropped by the cap, an expiration or a reset,  and that last term is
never negative (nothing else takes units away, nothing else adds any). -/
theorem balance_ledger (c : Cfg) (h : WF c = true) (ops : List Op) :
    let s := run c (init c) ops
    s.units = s.inUnits + s.bonus + s.granted - s.deducted - s.lost ∧ 0 ≤ s.lost :=
  (run_good c h ops (init c) (init_good c)).2

/-- **start gate**: whenever a request makes the number of players grow while the machine is in credit play, a full
game price was available before it — in every state, reachable or not. -/
theorem start_needs_full_price (c : Cfg) (s : St) (op : Op)
    (hp : players (act c s op) > players s) (hf : s.freePlay = false) : s.units ≥ upg c := by
  by_cases hop : op = .start
  · subst hop
    simp only [act] at hp
    split at hp
    · split at hp
      · rename_i he; simpa [enough, hf] using he
      · simp [notEnough, players, *] at hp
    · split at hp
      · split at hp
        · rename_i he; simpa [enough, hf] using he
        · simp [notEnough, players, *] at hp
      · omega
  · have := players_not_grow c s op hop
    omega

/-- only the start button makes the number of players grow -/
theorem players_grow_only_by_start (c : Cfg) (s : St) (op : Op) (hp : players (act c s op) > players s) :
    op = .start := by
  by_cases hop : op = .start
  · exact hop
  · have := players_not_grow c s op hop
    omega

/-- **exact deduction**: a request that makes the number of players grow in credit play adds exactly one player,
takes exactly one game price off the balance and counts one paid game. -/
theorem deduct_exactly_price (c : Cfg) (s : St) (op : Op)
    (hp : players (act c s op) > players s) (hf : s.freePlay = false) :
    players (act c s op) = players s + 1 ∧ (act c s op).units = s.units - upg c ∧
    (act c s op).paid = s.paid + 1 ∧ (act c s op).deducted = s.deducted + upg c := by
  have hu := start_needs_full_price c s op hp hf
  have := players_grow_only_by_start c s op hp
  subst this
  have hd : deductUnits c s.units = s.units - upg c := by unfold deductUnits; split <;> omega
  simp only [act] at hp ⊢
  split at hp
  · rename_i hg
    split at hp
    · simp [*, players, gameStarted, joinPlayer, playerAdded, updStrings, ballStarting, controlInhibit]
      omega
    · simp [notEnough, players, *] at hp
  · rename_i g hg
    split at hp
    · rename_i hc
      split at hp
      · rename_i he
        simp [hg, hc, he, players, joinPlayer, playerAdded, updStrings, hf, hd, controlInhibit]
        omega
      · simp [notEnough, players, *] at hp
    · omega

/-- in free play a joining player costs nothing -/
theorem free_play_no_deduction (c : Cfg) (s : St) (op : Op)
    (hp : players (act c s op) > players s) (hf : s.freePlay = true) :
    (act c s op).units = s.units ∧ (act c s op).paid = s.paid := by
  have := players_grow_only_by_start c s op hp
  subst this
  simp only [act] at hp ⊢
  split at hp
  · rename_i hg
    split at hp
    · simp [*, gameStarted, joinPlayer, ballStarting]
    · simp [notEnough, players, *] at hp
  · rename_i g hg
    split at hp
    · rename_i hc
      split at hp
      · rename_i he
        simp [hc, he, joinPlayer, hf]
      · simp [notEnough, players, *] at hp
    · omega

/-- **audits = coins accepted**: over every history without an earnings reset, from any state, the coin count and the
earnings total grow by exactly the number and the value of the coins inserted while the machine was in credit play
(coins are audited even when the cap swallows their credits). -/
theorem audits_equal_coins (c : Cfg) (ops : List Op) (s : St) (h : ∀ op ∈ ops, op ≠ .earnReset) :
    (run c s ops).coinCount = s.coinCount + (coinsIn c s ops).1 ∧
    (run c s ops).earn = s.earn + (coinsIn c s ops).2 := by
  induction ops generalizing s with
  | nil => exact ⟨rfl, rfl⟩
  | cons op rest ih =>
    have h1 := act_audit c s op (h op (by simp))
    have h2 := tick_audit c (act c s op) (dtOf op)
    have h3 := ih (step c s op) (fun o ho => h o (by simp [ho]))
    simp only [run, coinsIn]
    unfold step at h3 ⊢
    omega

/-- **pricing table = tiers**: the bonus the unit-by-unit loop of `_add_credit_units` grants for `n` units bought while
the tier counter goes from `t` to `t + n` without passing the wrap-around is exactly the difference of the cumulative
tier bonus (largest tier first) — so a run of purchases from a restarted counter gets what the tiers promise. -/
theorem tier_bonus_is_greedy (c : Cfg) (n t : Nat) (b : Int) (h : t + n ≤ wrap c) :
    (tierLoop c n t b).2 = b + cum c (t + n) - cum c t := by
  induction n generalizing t b with
  | zero => simp [tierLoop]
  | succ n ih =>
    rw [tierLoop]
    have ht : table c (t + 1) = cum c (t + 1) - cum c t := rfl
    cases n with
    | zero => simp only [tierLoop, ht, Nat.zero_add]; omega
    | succ m =>
      have hm : (t + 1) % wrap c = t + 1 := Nat.mod_eq_of_lt (by omega)
      rw [hm, ih (t + 1) _ (by omega), ht]
      have e : t + 1 + (m + 1) = t + (m + 1 + 1) := by omega
      rw [e]; omega

/-- **tie to the source (1)**: the balance the model stores in `_add_credit_units` is the value computed by the cap-and-store
code *as regenerated from credits.py on this run* (`Gen/Credits.lean`, everything after the pricing-tier loop), with
`previous_credit_units` = the balance before and `total_credit_units` = balance + added units + tier bonus. -/
theorem gen_add_units (c : Cfg) (s : St) (n : Nat) (t : Bool) :
    (addUnits c s n t).units =
      Gen.Credits.addTail s.units s.units (n + s.units + addBonus c s n t) c.maxCredits (upg c) := by
  rw [addUnits_units]
  unfold newUnits Gen.Credits.addTail maxUnits
  simp only [Int.natCast_mul]

/-- **tie to the source (2)**: `_clear_fractional_credits` as regenerated from credits.py -/
theorem gen_clear_fractional (c : Cfg) (s : St) :
    (clearFrac c s).units = Gen.Credits.clearFractional s.units (upg c) := rfl

/-- **tie to the source (3)**: the credit-play branch of `_player_added` as regenerated from credits.py -/
theorem gen_player_added (c : Cfg) (s : St) :
    (playerAdded c s).units = Gen.Credits.playerAdded s.units (upg c) := by
  show deductUnits c s.units = _
  unfold deductUnits Gen.Credits.playerAdded
  simp only []

/-- **tie to the source (4)**: seven handlers of credits.py, *as regenerated from the source on this run*
(`Gen/CreditsOps.lean`, programs for the stateful interpreter `Model/PyStore.lean`), do exactly what the hand model does:
running the generated program on the object state of `s` and folding everything it did (variable and attribute writes,
events posted, delays set and removed, calls of the display / audit / enable methods) over `s` gives the hand model's next
state (ghost ledger aside), nothing it did is without a meaning in the model, and it returns what the model says.
The start gates (`_request_to_start_game`, `_player_add_request`): approved iff a full price is there, a refusal posts
`not_enough_credits`; `_game_started` / `_game_ended` (expiration delays removed / restarted, tier counter and flag);
the two expirations `_clear_fractional_credits` (for a positive number of units per game) and `clear_all_credits`;
`toggle_credit_play`.  In credit play (`hf`) where the handler is only registered there. -/
theorem handlers_refine_source (c : Cfg) (s : St) :
    (s.freePlay = false →
      genRun c s Gen.CreditsOps.p_request_to_start_game [] =
        (core (if enough c s then s else notEnough s), false, some (.bool (enough c s))) ∧
      genRun c s Gen.CreditsOps.p_player_add_request [] =
        (core (if enough c s then s else notEnough s), false, some (.bool (enough c s))) ∧
      genRun c s Gen.CreditsOps.p_game_started [] = (core (gameStarted s), false, some .none) ∧
      genRun c s Gen.CreditsOps.p_game_ended [] =
        (core { (resetTimeouts c s) with resetThisGame := false }, false, some .none)) ∧
    (0 < upg c → genRun c s Gen.CreditsOps.p_clear_fractional_credits [] = (core (clearFrac c s), false, some .none)) ∧
    genRun c s Gen.CreditsOps.clear_all_credits [] = (core (clearAll s), false, some .none) ∧
    genRun c s Gen.CreditsOps.toggle_credit_play [] = (core (togglePlay c s), false, some .none) :=
  ⟨fun hf => ⟨request_to_start_gen c s hf, player_add_request_gen c s hf, game_started_gen c s hf, game_ended_gen c s hf⟩,
   clear_fractional_gen c s, clear_all_gen c s, toggle_gen c s⟩

/-- hence, in the source as it is now: the start gate approves a request in credit play only with a full price -/
theorem source_gate_needs_full_price (c : Cfg) (s : St) (hf : s.freePlay = false)
    (h : (genRun c s Gen.CreditsOps.p_request_to_start_game []).2.2 = some (.bool true) ∨
         (genRun c s Gen.CreditsOps.p_player_add_request []).2.2 = some (.bool true)) : s.units ≥ upg c := by
  rw [request_to_start_gen c s hf, player_add_request_gen c s hf] at h
  simp [enough, hf] at h
  exact h

/-- a power cycle never creates credits: the balance after it is the balance before or zero (from any state) -/
theorem reboot_keeps_or_drops (c : Cfg) (s : St) (off : Nat) :
    (act c s (.reboot off)).units = s.units ∨ (act c s (.reboot off)).units = 0 := by
  have hb : ∀ x : St, (boot c x).units = x.units := by intro x; simp only [boot]; split <;> rfl
  simp only [act, reboot, hb]
  split
  · exact Or.inl rfl
  · exact Or.inr rfl

/-- the hypotheses are satisfiable: the test-suite configuration (quarter and dollar coins, 50 ct per credit,
5 credits for $2, at most 12 credits) is well-formed, two dollars buy 5 credits, and the 12-credit cap holds -/
example :
    let c : Cfg := { maxCredits := 12, coins := [25, 100], tiers := [(50, 1), (200, 5)], events := [1] }
    WF c = true ∧ upg c = 2 ∧ (run c (init c) [.coin 1, .coin 1]).units = 10 ∧
    (run c (init c) [.coin 1, .coin 1, .coin 1, .coin 1, .coin 1, .coin 0, .coin 0, .coin 1]).units = 24 ∧
    (run c (init c) [.coin 1, .start, .start, .start]).units = 0 ∧
    players (run c (init c) [.coin 1, .start, .start, .start]) = 2 := by decide

/-- power cycles are reachable and both outcomes occur: with `persist_credits_while_off_time: 8s` a dollar's credits
survive 5 s without power and are gone after 9 s; and the generated start gate refuses an empty machine -/
example :
    let c : Cfg := { maxCredits := 12, coins := [25, 100], tiers := [(50, 1)], persist := 8 }
    (run c (init c) [.coin 1, .reboot 5]).units = 4 ∧ (run c (init c) [.coin 1, .reboot 9]).units = 0 ∧
    (init c).freePlay = false ∧ enough c (init c) = false := by decide

end MpfVerif.C20
