import MpfVerif.Lemmas.ConfigExt
/-!
# C12 — config validation returns well-typed complete configs or rejects

`Gen/TimeSuffix.lean` and `Gen/SpecTable.lean` are regenerated from `utility_functions.py` / `config_spec.yaml`
on every check; the table theorems below are re-checked against them.
-/
namespace MpfVerif.C12
open MpfVerif.Config MpfVerif.ConfigExt MpfVerif.Gen

/-! ## the time-suffix table of `Util.string_to_ms` (generated) -/

/-- every float-converted branch rounds its product (never truncates it: `int(1.001 * 1000) = 1000`) -/
theorem time_table_rounds : ∀ e ∈ TimeSuffix.table, e.floatConv = true → e.outer = "round" := by decide

/-- every branch slices off exactly its own suffix (the `'MSEC'`-caught-by-`'MS'` defect had slice 2 for a 4-letter suffix) -/
theorem time_table_slice_matches : ∀ e ∈ TimeSuffix.table, ∀ s ∈ e.suffixes, s.length = e.slice := by decide

/-- no branch is dead: no suffix of a later branch ends with a suffix tested by an earlier branch -/
theorem time_table_no_shadow : noShadow TimeSuffix.table = true := by decide

/-- the multipliers are exactly value-of-unit in ms: ms/msec ×1, d ×86 400 000, h ×3 600 000, m ×60 000, s/sec ×1000 -/
theorem time_table_units :
    TimeSuffix.table.map (fun e => (e.suffixes, e.mults.foldl (· * ·) 1))
      = [(["MS"], 1), (["MSEC"], 1), (["D"], 86400000), (["H"], 3600000), (["M"], 60000), (["S"], 1000), (["SEC"], 1000)] := by
  decide

/-- at most two multiplications per branch — the shape `time_value_times_unit` covers -/
theorem time_table_mult_chain : ∀ e ∈ TimeSuffix.table, e.mults.length ≤ 2 := by decide

/-- **value × unit**: with float parse and float multiply modelled by any rounding function of relative error
≤ 2⁻⁵³, `round(float(d) * U)` and `round(float(d) * U₁ * U₂)` return exactly `d·U` whenever that product is a whole
number of ms with magnitude ≤ 2⁴⁹ — for every decimal literal `d` and every unit of the table (`time_table_units`). -/
theorem time_value_times_unit (rnd : ℚ → ℚ) (hr : RelErr (1 / 2 ^ 53) rnd) (d : ℚ) (U₁ U₂ : ℚ) (n : ℤ)
    (hU₁ : 0 ≤ U₁) (hU₂ : 0 ≤ U₂) (hn : d * U₁ * U₂ = n) (hb : |d * U₁ * U₂| ≤ 2 ^ 49) :
    round (rnd (rnd (rnd d * U₁) * U₂)) = n :=
  round_recovers2 rnd hr d U₁ U₂ n hU₁ hU₂ hn hb

/-- one multiplication (`S`, `SEC`: `round(float(d) * 1000)`) -/
theorem time_value_times_unit_single (rnd : ℚ → ℚ) (hr : RelErr (1 / 2 ^ 53) rnd) (d U : ℚ) (n : ℤ)
    (hU : 0 ≤ U) (hn : d * U = n) (hb : |d * U| ≤ 2 ^ 49) : round (rnd (rnd d * U)) = n :=
  round_recovers1 rnd hr d U n hU hn hb

/-- the exact-rational rounding used by the executable model agrees with `round` on whole numbers:
the model's answer for a whole product is that product -/
theorem model_round_exact (n : Int) (d : Nat) (hd : 0 < d) : roundHalfEven (n * d) d = n := by
  unfold roundHalfEven
  have hd' : (d : Int) ≠ 0 := by omega
  simp [Int.mul_ediv_cancel _ hd']
  have : (0 : Int) < d := by omega
  omega

/-! ## scalar validators -/

/-- **validate_typed**: for every scalar validator except `pow2` and every YAML scalar, `validate_item` either
rejects / raises / is outside the model, or returns a value of the declared type inside the declared range —
in particular NaN is never returned for a ranged key. -/
theorem validate_typed_partial (vd : V) (item out : Y) (hp : ∀ (h : vd = .pow2), False)
    (h : validateItem vd item = .ok out) : HasType vd out = true :=
  validate_typed_aux vd item out hp h

/-- known finding D29 (kept because an existing test pins it): `pow2` returns the *unconverted* item —
the string "16", the float 2.5 and `True` come back as they are, none of them an int power of two. -/
theorem pow2_witness :
    validateItem .pow2 (.str "16") = .ok (.str "16") ∧ validateItem .pow2 (.rat 5 2) = .ok (.rat 5 2)
      ∧ validateItem .pow2 (.bool true) = .ok (.bool true) := by decide

/-- non-vacuity: conversions, range ends, NaN -/
example : validateItem (.int (some ⟨some (0, 1), some (10, 1)⟩)) (.str " 7 ") = .ok (.int 7) := by decide
example : validateItem (.float (some ⟨some (0, 1), some (1, 1)⟩)) .nan = .reject := by decide
example : validateItem (.float (some ⟨some (0, 1), some (1, 1)⟩)) (.str "0.25") = .ok (.rat 25 100) := by decide
example : validateItem .ms (.str "1.001s") = .ok (.int 1001) := by decide
example : validateItem .ms (.str "100msec") = .ok (.int 100) := by decide

/-! ## item types: lists, sets, dicts -/

/-- **lists are normalised and typed**: for every scalar validator except `pow2`, whatever the item was (a YAML list,
a comma-separated string, a single scalar, None), a returned list has only elements of the declared type -/
theorem list_typed (vd : V) (vvd : Option V) (brace : Bool) (item : Item) (out : Item)
    (hp : ∀ (h : vd = .pow2), False) (h : validateConfigItem .list vd vvd brace item = .ok out) :
    ∃ vs, out = .list vs ∧ ∀ v ∈ vs, HasType vd v = true :=
  list_typed_aux vd vvd brace item out hp h

/-- no element of a provided list is dropped or invented: a YAML list of `n` scalars comes back with `n` elements -/
theorem list_length_kept (vd : V) (vvd : Option V) (brace : Bool) (ys : List Y) (out : Item)
    (h : validateConfigItem .list vd vvd brace (.list ys) = .ok out) : ∃ vs, out = .list vs ∧ vs.length = ys.length :=
  list_length_aux vd vvd brace ys out h

/-- **dicts are typed**: keys by the first validator, values by the second; a non-dict is rejected; None is `{}` -/
theorem dict_typed (kvd vvd : V) (brace : Bool) (item : Item) (out : Item)
    (hk : ∀ (h : kvd = .pow2), False) (hv : ∀ (h : vvd = .pow2), False)
    (h : validateConfigItem .dict kvd (some vvd) brace item = .ok out) :
    ∃ kvs, out = .dict kvs ∧ ∀ p ∈ kvs, HasType kvd p.1 = true ∧ HasType vvd p.2 = true :=
  dict_typed_aux kvd vvd brace item out hk hv h

example : validateConfigItem .list (.int Option.none) Option.none true (.scalar (.str "1, 2,3"))
    = .ok (.list [.int 1, .int 2, .int 3]) := by decide
example : validateConfigItem .list .str Option.none true (.scalar (.str "a,,b")) = .reject := by decide
example : validateConfigItem .dict .str (some (.int Option.none)) true (.dict [(.str "a", .str "5")])
    = .ok (.dict [(.str "a", .int 5)]) := by decide

/-! ## section validation -/

/-- an unknown key is never accepted silently -/
theorem unknown_key_rejected (n : Nat) (spec : List KeySpec) (src : List (String × Item)) :
    validateSection false (n + 1) spec src = none := by
  simp [validateSection]

/-- a returned config has exactly the keys of the spec, in spec order (defaults filled in) -/
theorem all_spec_keys_present (a : Bool) (n : Nat) (spec : List KeySpec) (src : List (String × Item)) (rs)
    (h : validateSection a n spec src = some rs) : rs.map (·.1) = spec.map (·.key) := by
  unfold validateSection at h
  split at h
  · exact absurd h (by simp)
  · simp only [Option.some.injEq] at h
    subst h
    simp only [List.map_map]
    apply List.map_congr_left
    intro ks _
    simp only [Function.comp]
    split <;> (try split) <;> rfl

/-- a provided value is validated by its key's item type and validator (never dropped, never replaced by the
default); a missing required key is rejected -/
theorem provided_key_validated (a : Bool) (n : Nat) (spec : List KeySpec) (src : List (String × Item)) (rs)
    (h : validateSection a n spec src = some rs) (ks : KeySpec) (hk : ks ∈ spec) :
    (∀ v, src.lookup ks.key = some v → (ks.key, validateConfigItem ks.it ks.vd ks.vvd ks.brace v) ∈ rs) ∧
    (src.lookup ks.key = none → ks.default = none → (ks.key, RI.reject) ∈ rs) := by
  unfold validateSection at h
  split at h
  · exact absurd h (by simp)
  · simp only [Option.some.injEq] at h
    subst h
    constructor
    · intro v hv
      exact List.mem_map.mpr ⟨ks, hk, by simp [hv]⟩
    · intro hv hd
      exact List.mem_map.mpr ⟨ks, hk, by simp [hv, hd]⟩

/-! ## the spec itself (generated) -/

/-- every validator used anywhere in `config_spec.yaml` is known: either modelled here or listed as opaque -/
theorem all_spec_validators_known :
    ∀ r ∈ SpecTable.table, ∀ b ∈ r.bases, b ∈ modelledValidators ∨ b ∈ opaqueValidators := by
  decide +kernel

/-- every entry has one of the five item types (or is a bare `ignore`) -/
theorem all_spec_item_types_known :
    ∀ r ∈ SpecTable.table, r.itemType ∈ ["single", "list", "set", "dict", "event_handler", ""] := by
  decide +kernel

/-! ## session 3: the non-scalar validators -/

/-- **extended validators are typed**: for `x_or_token`, `event_handler` / `event_posted` strings, `int_from_hex`, `color`,
`gain`, the six `template_*` builders and `machine(<collection>)` (and the scalar validators again), for every
environment (device names, verdict of Python's expression parser) and every YAML scalar, `validate_item` rejects /
raises / is outside the model, or returns a value of the declared type: a runtime token only for an `_or_token`
validator, an int ≤ 255, a 3-component colour, a gain in [0,1] or NaN (see `gain_nan_witness`), a template object of the
right class (a constant of the right type, or an expression template), a device that exists in that collection. -/
theorem ext_validate_typed (env : Env) (vd : XV) (y : Y) (out : T) (h : vScalarX env vd y = .ok out) :
    HasTypeX env vd out = true :=
  xscalar_typed_aux env vd y out h

/-- a device reference is accepted only if the device exists in the named collection -/
theorem device_reference_exists (env : Env) (c : String) (y : Y) (c' n : String)
    (h : vScalarX env (.machine c) y = .ok (.dev c' n)) : c' = c ∧ n ∈ (env.devs.lookup c).getD [] := by
  have := xscalar_typed_aux env _ y _ h
  simp only [HasTypeX, Bool.and_eq_true, beq_iff_eq] at this
  exact ⟨this.1.symm, by simpa using this.2⟩

/-- every colour of the generated name table (`NAMED_RGB_COLORS`) has components in 0..255 -/
theorem named_colours_in_range : ∀ e ∈ ColorNames.table, e.2.1 ≤ 255 ∧ e.2.2.1 ≤ 255 ∧ e.2.2.2 ≤ 255 := by decide +kernel

/-- observation kept visible: the list form of a colour is not range-checked (`"300,0,0"` comes back as (300, 0, 0)) and a
fourth component is dropped silently; the name and hex forms are always inside 0..255 -/
theorem color_list_form_unranged_witness :
    (match vColor (.str "300,0,0"), vColor (.str "1,2,3,4") with
     | .ok (.color 300 0 0), .ok (.color 1 2 3) => true | _, _ => false) = true := by decide +kernel

/-- observation kept visible: `min(max(nan, 0.0), 1.0)` is NaN, so the gain validator returns NaN for "nan" — a float, but
in no range; anything unparsable silently becomes gain 1.0 -/
theorem gain_nan_witness :
    (match vGain (.str "nan"), vGain (.str "loud") with
     | .ok (.s .nan), .ok (.s (.rat 1 1)) => true | _, _ => false) = true := by decide +kernel

/-- non-vacuity: token, colour by name / hex, device, template forms -/
example : (match vScalarX {} (.orToken (.base (.int Option.none))) (.str "(x)") with | .ok (.token "x") => true | _ => false) = true := by decide +kernel
example : (match vColor (.str "red"), vColor (.str "00ff80") with | .ok (.color 255 0 0), .ok (.color 0 255 128) => true | _, _ => false) = true := by decide +kernel
example : (match vMachine { devs := [("switches", ["s1"])] } "switches" (.str "s1"), vMachine { devs := [("switches", ["s1"])] } "coils" (.str "s1") with
    | .ok (.dev "switches" "s1"), .reject => true | _, _ => false) = true := by decide +kernel
example : (match vTmpl {} .ms (.str "1.5s"), vTmpl { synOk := false } .int (.str "1 +"), vTmpl {} .bool (.str "x>1") with
    | .ok (.tmpl .int true (.int 1500)), .reject, .ok (.tmpl .bool false (.str "x>1")) => true | _, _, _ => false) = true := by decide +kernel

/-! ## session 3: sections at every depth (`subconfig`, nested sections, all item types) -/

/-- **complete and typed at every depth**: for every spec table, environment, depth bound, section (with base specs) and
source tree, `_validate_config` rejects, or returns a dict that lists every non-ignored key of the (merged) spec, in spec
order, each with a value of its declared type — lists / sets element-wise, dicts and event-handler dicts key- and
value-wise, `subconfig(...)` values and the entries of nested sections *recursively* by the same statement — and that
holds no key the spec does not know (unless the section has `__allow_others__` or the key starts with `_`). -/
theorem deep_section_typed_complete (specs : List Sec) (env : Env) (fuel : Nat) (names : List String) (src out : T)
    (h : valSec specs env fuel names src = .ok out) : wtSec specs env fuel names out = true :=
  valSec_typed specs env fuel names src out h

/-- an unknown key is rejected wherever it stands: `valSec` is the function applied at every depth, so this is the
statement for every nested section too -/
theorem deep_unknown_key_rejected (specs : List Sec) (env : Env) (fuel : Nat) (names : List String) (sec : Sec)
    (kvs : List (Y × T)) (hs : buildSpec specs names = some sec) (ha : sec.allowOthers = false)
    (hu : kvs.any (fun p => !knownKey sec p.1) = true) :
    (match valSec specs env (fuel + 1) names (.d kvs) with | .reject => true | _ => false) = true := by
  simp [valSec, hs, ha, hu]

/-- a source that is not a dict (None, a scalar, a list) is rejected at every depth -/
theorem deep_non_dict_rejected (specs : List Sec) (env : Env) (fuel : Nat) (names : List String) (sec : Sec) (y : Y)
    (hs : buildSpec specs names = some sec) :
    (match valSec specs env (fuel + 1) names (.s y) with | .reject => true | _ => false) = true := by
  simp [valSec, hs]

/-- a two-level spec for the examples: `coil` has a required number, an optional `subconfig(overwrite)` and a list of them -/
def exSpecs : List Sec := [
  { name := "coil", keys := [{ key := "number", vd := .base (.int Option.none), dflt := Option.none },
                             { key := "ov", vd := .subconfig ["overwrite"] },
                             { key := "ovs", it := .list, vd := .subconfig ["overwrite"] }] },
  { name := "overwrite", keys := [{ key := "pulse_ms", vd := .base .ms }, { key := "switch", vd := .machine "switches" }] }]

/-- non-vacuity: a nested source validates two levels deep (defaults filled at both levels, time converted, device
resolved); an unknown key / an unknown device / a missing required key at depth rejects the whole config -/
example : (match valSec exSpecs { devs := [("switches", ["s1"])] } 3 ["coil"]
      (.d [(.str "number", .s (.str "7")), (.str "ov", .d [(.str "pulse_ms", .s (.str "1s")), (.str "switch", .s (.str "s1"))])]) with
    | .ok (.d [(.str "number", .s (.int 7)),
               (.str "ov", .d [(.str "pulse_ms", .s (.int 1000)), (.str "switch", .dev "switches" "s1")]),
               (.str "ovs", .l [])]) => true
    | _ => false) = true := by decide +kernel
example : (match valSec exSpecs {} 3 ["coil"]
      (.d [(.str "number", .s (.int 7)), (.str "ovs", .l [.d [], .d [(.str "zz", .s (.int 1))]])]) with
    | .reject => true | _ => false) = true := by decide +kernel
example : (match valSec exSpecs {} 3 ["coil"] (.d [(.str "number", .s (.int 7)), (.str "ov", .d [(.str "switch", .s (.str "s9"))])]),
      valSec exSpecs {} 3 ["coil"] (.d [(.str "ov", .d [])]) with
    | .reject, .reject => true | _, _ => false) = true := by decide +kernel

/-! ## session 3: the generated spec -/

/-- every `subconfig(...)` of `config_spec.yaml` (and every nested section) names sections that exist -/
theorem all_subconfig_targets_exist :
    ∀ s ∈ SpecSections.table, ∀ k ∈ s.keys, ∀ n ∈ k.subs, SpecSections.table.any (fun t => t.name == n) = true := by
  decide +kernel

/-- `_check_sections` tests `config_type not in spec[k]['__valid_in__']` on the *string*; for the two config types that are
checked (machine, mode) this substring test agrees with membership in the comma-separated list, for every section -/
theorem valid_in_substring_is_membership :
    ∀ s ∈ SpecSections.table, ∀ ct ∈ ["machine", "mode"], validIn ct s = s.validInList.contains ct := by
  decide +kernel

end MpfVerif.C12
