import MpfVerif.Model.Config
import MpfVerif.Gen.SpecTable
/-!
# C12 — config validation returns well-typed complete configs or rejects
-/
namespace MpfVerif.C12
open MpfVerif.Config MpfVerif.Gen

/-- every float-converted branch of `string_to_ms` rounds its product (never truncates it) -/
theorem time_table_rounds : ∀ e ∈ TimeSuffix.table, e.floatConv = true → e.outer = "round" := by decide

/-- every branch slices off exactly its own suffix -/
theorem time_table_slice_matches : ∀ e ∈ TimeSuffix.table, ∀ s ∈ e.suffixes, s.length = e.slice := by decide

end MpfVerif.C12
