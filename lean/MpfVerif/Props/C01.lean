import MpfVerif.Lemmas.EventBus
/-!
# C01 — Event dispatch is complete, priority-ordered and serial

Property theorems only (model: `Model/EventBus.lean`, helper lemmas: `Lemmas/EventBus.lean`).
`progs : Nat → Prog` (the behaviour of every handler and callback) is universally quantified everywhere, and the
queue theorems hold for an arbitrary dispatch function `proc` and callback runner `cbrun`.
-/
namespace MpfVerif.C01
open MpfVerif.EventBus

/-- Registration keeps every handler list sorted by priority, descending: after ANY history of `add_handler`,
`remove_handler_by_key`, `remove_all_handlers_for_event`, `replace_handler`, `remove_handler(method)` and
`remove_handler_by_event`, for every event. -/
theorem reg_sorted (ops : List RegOp) (ev : Nat) :
    (regGet (ops.foldl applyOp []) ev).Pairwise (fun a b => a.prio ≥ b.prio) := by
  have key : ∀ (r : Reg), RegSorted r → RegSorted (ops.foldl applyOp r) := by
    induction ops with
    | nil => intro r h; exact h
    | cons op rest ih => intro r h; exact ih _ (applyOp_sorted r op h)
  exact key [] (fun e => by simp [regGet, Desc]) ev

/-- ... and stable: in a sorted list the new handler goes behind every handler of the same or a higher priority and
in front of the first lower one, and no other handler moves (registration order among equals). -/
theorem reg_stable (r : Reg) (ev : Nat) (h : Handler) (hs : RegSorted r) :
    regGet (addHandler r ev h) ev = insAfter h (regGet r ev) := by
  simp only [addHandler, regGet_regSet, if_true]
  exact sortDesc_append_one h _ (hs ev)

/-- `replace_handler` = drop the matching entries of that event (same callback; with kwargs also equal kwargs), then
place the new entry like `add_handler` does: behind every remaining entry of the same or a higher priority.  No other
entry of the event moves, and no other event changes. -/
theorem replace_lands (r : Reg) (ev : Nat) (h : Handler) (hs : RegSorted r) :
    regGet (replaceHandler r ev h) ev = insAfter h ((regGet r ev).filter (fun x => !replaceMatches h x)) ∧
    ∀ ev', ev' ≠ ev → regGet (replaceHandler r ev h) ev' = regGet r ev' := by
  constructor
  · simp only [replaceHandler, regGet_regSet, if_true]
    exact sortDesc_append_one h _ (List.Pairwise.sublist List.filter_sublist (hs ev))
  · intro ev' hne
    simp only [replaceHandler, regGet_regSet]
    rw [if_neg (fun hh => hne hh.symm)]

/-- `remove_handler(method)` removes exactly the entries of that callback under every event, `remove_handler_by_event`
exactly those under the one event; everything else keeps its place. -/
theorem remove_by_callback (r : Reg) (pid ev : Nat) :
    regGet (removeFn r pid) ev = (regGet r ev).filter (fun x => x.pid != pid) ∧
    regGet (removeEvFn r ev pid) ev = (regGet r ev).filter (fun x => x.pid != pid) ∧
    ∀ ev', ev' ≠ ev → regGet (removeEvFn r ev pid) ev' = regGet r ev' := by
  refine ⟨regGet_removeFn r pid ev, by simp [removeEvFn, regGet_regSet], ?_⟩
  intro ev' hne
  simp only [removeEvFn, regGet_regSet]
  rw [if_neg (fun hh => hne hh.symm)]

/-- One iteration of `process_event_queue` (stack of deques) simulates the single depth-first agenda: under the
loop-head invariant the iteration either is the swap-in of `event_queue` (agenda unchanged) or performs exactly the
agenda step, and re-establishes the invariant; the loop stops only when the agenda machine has nothing left. -/
theorem queue_refines_spec_step {S Ev : Type} (proc : S → Ev → S × List Ev) (cbrun : S → Option (S × List Ev))
    (st : Loop S Ev) (h : Loop.Inv st) :
    match Loop.step proc cbrun st with
    | none => Spec.step proc cbrun st.abs = none
    | some st' => Loop.Inv st' ∧ ((st.cur = [] ∧ st'.abs = st.abs) ∨ Spec.step proc cbrun st.abs = some st'.abs) :=
  step_sim proc cbrun st h

/-- Lifted to any number of iterations, from any state outside the loop (whatever is in `event_queue`): `n`
iterations reach a state that the agenda machine reaches in at most `n` steps, with the same bus state (registry,
callback queue, log of handler calls and callbacks). -/
theorem queue_refines_spec {S Ev : Type} (proc : S → Ev → S × List Ev) (cbrun : S → Option (S × List Ev))
    (s : S) (queue : List Ev) (n : Nat) :
    ∃ m, m ≤ n ∧ Spec.iter proc cbrun m ⟨s, queue⟩ = (Loop.iter proc cbrun n ⟨s, queue, [], []⟩).abs := by
  have hinv : Loop.Inv (⟨s, queue, [], []⟩ : Loop S Ev) := by simp [Loop.Inv]
  obtain ⟨_, m, hm, h⟩ := iter_refines proc cbrun n ⟨s, queue, [], []⟩ hinv
  exact ⟨m, hm, by simpa [Loop.abs] using h⟩

/-- Events posted while an event is handled are dispatched after that event and before everything that was already
waiting: in every reachable loop state with current event `e`, the next agenda is `children(e) ++ everything waiting`. -/
theorem children_before_waiting {S Ev : Type} (proc : S → Ev → S × List Ev) (cbrun : S → Option (S × List Ev))
    (s : S) (queue : List Ev) (n : Nat) (st : Loop S Ev) (hreach : st = Loop.iter proc cbrun n ⟨s, queue, [], []⟩)
    (e : Ev) (rest : List Ev) (hc : st.cur = e :: rest) :
    ∃ st', Loop.step proc cbrun st = some st' ∧ st'.s = (proc st.s e).1 ∧
      st'.abs.agenda = (proc st.s e).2 ++ (rest ++ st.inner.flatten) := by
  have hinv : Loop.Inv st := hreach ▸ (iter_refines proc cbrun n ⟨s, queue, [], []⟩ (by simp [Loop.Inv])).1
  have hs := step_sim proc cbrun st hinv
  have hq : st.queue = [] := hinv.2.2 (by rw [hc]; simp)
  cases hst : Loop.step proc cbrun st with
  | none =>
    rw [hst] at hs
    simp [Spec.step, Loop.abs, hc] at hs
  | some st' =>
    rw [hst] at hs
    refine ⟨st', rfl, ?_⟩
    rcases hs.2 with ⟨h0, _⟩ | hstep
    · rw [hc] at h0; cases h0
    · simp only [Spec.step, Loop.abs, hc, hq, List.cons_append, List.append_nil, Option.some.injEq] at hstep
      have h1 := congrArg Spec.s hstep
      have h2 := congrArg Spec.agenda hstep
      simp only at h1 h2
      exact ⟨h1.symm, by simp only [Loop.abs]; rw [← h2]⟩

/-- A completion callback runs only when everything is drained: whenever the inner loop is not running
(`next_queue` empty) nothing is left stacked in `inner_queue`, so a callback step happens only with an empty agenda. -/
theorem callback_after_descendants {S Ev : Type} (proc : S → Ev → S × List Ev) (cbrun : S → Option (S × List Ev))
    (s : S) (queue : List Ev) (n : Nat)
    (hc : (Loop.iter proc cbrun n ⟨s, queue, [], []⟩).cur = [])
    (hq : (Loop.iter proc cbrun n ⟨s, queue, [], []⟩).queue = []) :
    (Loop.iter proc cbrun n ⟨s, queue, [], []⟩).abs.agenda = [] := by
  have hinv := (iter_refines proc cbrun n ⟨s, queue, [], []⟩ (by simp [Loop.Inv])).1
  simp [Loop.abs, hc, hq, hinv.1 hc]

/-- The loop never ends with an event or a callback left: when `process_event_queue` returns, the event queue, the
deque stack and the callback queue are all empty. -/
theorem loop_ends_drained {S Ev : Type} (proc : S → Ev → S × List Ev) (cbrun : S → Option (S × List Ev))
    (s : S) (queue : List Ev) (n : Nat)
    (hn : Loop.step proc cbrun (Loop.iter proc cbrun n ⟨s, queue, [], []⟩) = none) :
    let st := Loop.iter proc cbrun n ⟨s, queue, [], []⟩
    st.cur = [] ∧ st.inner = [] ∧ st.queue = [] ∧ cbrun st.s = none :=
  step_none_drained proc cbrun _ (iter_refines proc cbrun n ⟨s, queue, [], []⟩ (by simp [Loop.Inv])).1 hn

/-- Exactly-once bookkeeping of callbacks, for all handler programs: dispatching an event runs no callback and queues
its own callback exactly once (none if it has none) ... -/
theorem callback_registered_once (progs : Nat → Prog) (c : Core) (e : Posted) :
    cbSns (processEvent progs c e).1.log = cbSns c.log ∧
    match e.cb with
    | none => (processEvent progs c e).1.cbq = c.cbq
    | some cb => ∃ kw, (processEvent progs c e).1.cbq = c.cbq ++ [(cb, e.sn, kw)] :=
  processEvent_cbq progs c e

/-- ... and a callback step runs the LAST queued entry, removes exactly that entry and logs it once; together with
`callback_after_descendants` (it runs only with an empty agenda) an entry can never run twice. -/
theorem callback_at_most_once (progs : Nat → Prog) (c c' : Core) (posted : List Posted)
    (h : cbRun progs c = some (c', posted)) :
    ∃ pid sn kw, c.cbq = c'.cbq ++ [(pid, sn, kw)] ∧ c'.log = c.log ++ [Obs.cb pid sn kw] :=
  cbRun_pops progs c c' posted h

/-- One dispatch of a plain event calls exactly the handlers of the snapshot taken when the dispatch begins whose
condition holds on the merged kwargs, each once, in list order (= descending priority by `reg_sorted`) — whatever the
handlers do to the registry meanwhile — and the posted kwargs are not changed. -/
theorem dispatch_set (progs : Nat → Prog) (c : Core) (e : Posted) (hty : e.ty = .plain) (hcb : e.cb = none) :
    (processEvent progs c e).1.log = c.log ++ expectedCalls e.ev e.sn e.kw (regGet c.reg e.ev) := by
  unfold processEvent
  rw [hty, hcb]
  exact (runHandlers_plain_log progs e.ev e.sn (regGet c.reg e.ev) c e.kw .none).1

/-- The same for boolean events (calls stop behind the first `False`) and relay events (each handler sees the fold so
far): the calls of one dispatch are a function of the snapshot taken when the dispatch begins and of the handlers'
return values only.  In particular — this is what the code does — a handler that `replace_handler`s / removes itself,
an already served peer or a peer still waiting, or adds one, changes nothing about the current dispatch: a peer removed
before its turn is still called from the snapshot, a peer added meanwhile is not, and nobody is skipped or called twice. -/
theorem dispatch_set_boolean (progs : Nat → Prog) (c : Core) (e : Posted) (hty : e.ty = .boolean) :
    (processEvent progs c e).1.log.filter (fun o => match o with | .call .. => true | .cb .. => false) =
      (c.log ++ boolCalls progs e.ev e.sn e.kw (regGet c.reg e.ev)).filter
        (fun o => match o with | .call .. => true | .cb .. => false) := by
  unfold processEvent
  rw [hty]
  have h := (runHandlers_boolean progs e.ev e.sn (regGet c.reg e.ev) c e.kw .none).1
  cases e.cb <;> simp only [h]

theorem dispatch_set_relay (progs : Nat → Prog) (c : Core) (e : Posted) (hty : e.ty = .relay) :
    (processEvent progs c e).1.log.filter (fun o => match o with | .call .. => true | .cb .. => false) =
      (c.log ++ relayCalls progs e.ev e.sn (regGet c.reg e.ev) e.kw).filter
        (fun o => match o with | .call .. => true | .cb .. => false) := by
  unfold processEvent
  rw [hty]
  have h := (runHandlers_relay progs e.ev e.sn (regGet c.reg e.ev) c e.kw .none).1
  cases e.cb <;> simp only [h]

/-- merged kwargs = posted ⊕ registered, the handler's value wins -/
theorem merge_handler_wins (posted hkw : Kw) (k : Nat) (hu : (hkw.map Prod.fst).Nodup) :
    kwGet (kwUpdate posted hkw) k = match kwGet hkw k with | some v => some v | none => kwGet posted k :=
  kwGet_kwUpdate posted hkw k hu

/-- the handler lists stay sorted through everything handlers, callbacks and top-level code do -/
theorem reg_sorted_preserved (c : Core) (acts : List Act) (h : RegSorted c.reg) : RegSorted (runActs c acts).1.reg :=
  runActs_reg_sorted c acts h

/-! ### non-vacuity: a 3-level posting tree, equal priorities, a handler removing a later one and adding a new one -/

def exProgs : Nat → Prog
  | 1 => ⟨[.post 2 .plain (some 9) [], .removeKey 1 12, .add 1 ⟨14, 5, [], none, 0⟩, .post 3 .plain (some 8) []], .none⟩
  | 2 => ⟨[.post 4 .plain (some 7) [(1, .int 1)]], .none⟩
  | 8 => ⟨[.post 5 .plain none []], .none⟩
  | _ => ⟨[], .none⟩

def exBus : Bus :=
  (Bus.top { s := {} } [.add 1 ⟨11, 0, [], none, 1⟩, .add 1 ⟨12, 0, [(1, .int 7)], none, 0⟩, .add 2 ⟨13, 0, [], none, 2⟩,
    .add 3 ⟨15, 0, [], none, 0⟩, .add 4 ⟨16, 0, [], some (1, 1), 0⟩, .add 5 ⟨17, 0, [], none, 0⟩,
    .post 1 .plain (some 9) [(1, .int 1)], .post 5 .plain (some 7) []])

/-- a(1) posts b(2), c(3); b posts d(4); e(5) was waiting: a b d c e, then callbacks last-first, the callback of c posts e -/
example : ((Bus.drain exProgs 100 exBus).map (fun b => b.s.log.map showObs)) =
    some ["c11.1.1:1", "c12.1.1:7", "c13.2.-", "c16.4.1:1", "c15.3.-", "c17.5.-", "b7.1.-", "b8.3.-", "c17.5.-",
      "b7.4.1:1", "b9.2.-", "b9.0.1:1"] := by decide

/-- the `replace_handler` idiom during the handler's own dispatch (self, an already served peer, a waiting peer; and
`remove_handler(method)` of a waiting peer): nobody is skipped in the running dispatch; the next post sees the new order -/
def exProgs2 : Nat → Prog
  | 1 => ⟨[.replace 1 ⟨21, 30, [], none, 1⟩], .none⟩
  | 2 => ⟨[.replace 1 ⟨22, 5, [], none, 3⟩, .removeFn 4], .none⟩
  | _ => ⟨[], .none⟩

example : ((Bus.drain exProgs2 100 (Bus.top { s := {} } [.add 1 ⟨11, 30, [], none, 1⟩, .add 1 ⟨12, 20, [], none, 2⟩,
      .add 1 ⟨13, 10, [], none, 3⟩, .add 1 ⟨14, 10, [(1, .int 1)], none, 4⟩, .post 1 .plain none [], .post 1 .boolean none []])).map
      (fun b => (b.s.log.map showObs, (regGet b.s.reg 1).map (·.key)))) =
    some (["c11.1.-", "c12.1.-", "c13.1.-", "c14.1.1:1", "c21.1.-", "c12.1.-", "c22.1.-"], [21, 12, 22]) := by decide

end MpfVerif.C01
