import MpfVerif.Lemmas.EventBus
import MpfVerif.Gen.EventFacts
/-!
# C01 — Event dispatch is complete, priority-ordered and serial

Property theorems only (model: `Model/EventBus.lean`, helper lemmas: `Lemmas/EventBus.lean`).
`progs : Nat → Prog` (the behaviour of every handler and callback) is universally quantified everywhere, and the
queue theorems hold for an arbitrary dispatch function `proc` and callback runner `cbrun`.

Tie to the source: `Gen/EventFacts.lean` is regenerated from `mpf/core/events.py` on every check (sort key and direction
of `add_handler`, copy-iteration of `_run_handlers`, the deque ends of `_post` / `_process_event` /
`process_event_queue`).  The model driver runs with those facts; `source_facts_canonical` proves they are the facts the
theorems below are stated for (hypotheses `… .facts = Facts.canon`), `source_loop_is_model_loop` /
`source_registry_is_model_registry` that the functions the driver runs are then the functions of the theorems.
-/
namespace MpfVerif.C01
open MpfVerif.EventBus

/-- Registration keeps every handler list sorted by priority, descending: after ANY history of `add_handler`,
`remove_handler_by_key`, `remove_all_handlers_for_event`, `replace_handler`, `remove_handler(method)` and
`remove_handler_by_event`, for every event. -/
theorem reg_sorted (ops : List RegOp) (ev : Nat) :
    (regGet (ops.foldl applyOp []) ev).Pairwise (fun a b => a.prio ≥ b.prio) := by
  have key : ∀ (r : Reg), RegSorted r → RegSorted (ops.foldl applyOp r) := by
    induction ops with
    | nil => intro r h; exact h
    | cons op rest ih => intro r h; exact ih _ (applyOp_sorted r op h)
  exact key [] (fun e => by simp [regGet, Desc]) ev

/-- ... and stable: in a sorted list the new handler goes behind every handler of the same or a higher priority and
in front of the first lower one, and no other handler moves (registration order among equals). -/
theorem reg_stable (r : Reg) (ev : Nat) (h : Handler) (hs : RegSorted r) :
    regGet (addHandler r ev h) ev = insAfter h (regGet r ev) := by
  simp only [addHandler, regGet_regSet, if_true]
  exact sortDesc_append_one h _ (hs ev)

/-- `replace_handler` = drop the matching entries of that event (same callback; with kwargs also equal kwargs), then
place the new entry like `add_handler` does: behind every remaining entry of the same or a higher priority.  No other
entry of the event moves, and no other event changes. -/
theorem replace_lands (r : Reg) (ev : Nat) (h : Handler) (hs : RegSorted r) :
    regGet (replaceHandler r ev h) ev = insAfter h ((regGet r ev).filter (fun x => !replaceMatches h x)) ∧
    ∀ ev', ev' ≠ ev → regGet (replaceHandler r ev h) ev' = regGet r ev' := by
  constructor
  · simp only [replaceHandler, regGet_regSet, if_true]
    exact sortDesc_append_one h _ (List.Pairwise.sublist List.filter_sublist (hs ev))
  · intro ev' hne
    simp only [replaceHandler, regGet_regSet]
    rw [if_neg (fun hh => hne hh.symm)]

/-- (`fn` = equality class of the callback object: all bound methods of one callback share it, a `functools.partial`
has its own.)  `remove_handler(method)` removes exactly the entries of that callback under every event, `remove_handler_by_event`
exactly those under the one event; everything else keeps its place. -/
theorem remove_by_callback (r : Reg) (pid ev : Nat) :
    regGet (removeFn r pid) ev = (regGet r ev).filter (fun x => x.fn != pid) ∧
    regGet (removeEvFn r ev pid) ev = (regGet r ev).filter (fun x => x.fn != pid) ∧
    ∀ ev', ev' ≠ ev → regGet (removeEvFn r ev pid) ev' = regGet r ev' := by
  refine ⟨regGet_removeFn r pid ev, by simp [removeEvFn, regGet_regSet], ?_⟩
  intro ev' hne
  simp only [removeEvFn, regGet_regSet]
  rw [if_neg (fun hh => hne hh.symm)]

/-- One iteration of `process_event_queue` (stack of deques) simulates the single depth-first agenda: under the
loop-head invariant the iteration either is the swap-in of `event_queue` (agenda unchanged) or performs exactly the
agenda step, and re-establishes the invariant; the loop stops only when the agenda machine has nothing left. -/
theorem queue_refines_spec_step {S Ev : Type} (proc : S → Ev → S × List Ev) (cbrun : S → Option (S × List Ev))
    (st : Loop S Ev) (h : Loop.Inv st) :
    match Loop.step proc cbrun st with
    | none => Spec.step proc cbrun st.abs = none
    | some st' => Loop.Inv st' ∧ ((st.cur = [] ∧ st'.abs = st.abs) ∨ Spec.step proc cbrun st.abs = some st'.abs) :=
  step_sim proc cbrun st h

/-- Lifted to any number of iterations, from any state outside the loop (whatever is in `event_queue`): `n`
iterations reach a state that the agenda machine reaches in at most `n` steps, with the same bus state (registry,
callback queue, log of handler calls and callbacks). -/
theorem queue_refines_spec {S Ev : Type} (proc : S → Ev → S × List Ev) (cbrun : S → Option (S × List Ev))
    (s : S) (queue : List Ev) (n : Nat) :
    ∃ m, m ≤ n ∧ Spec.iter proc cbrun m ⟨s, queue⟩ = (Loop.iter proc cbrun n ⟨s, queue, [], []⟩).abs := by
  have hinv : Loop.Inv (⟨s, queue, [], []⟩ : Loop S Ev) := by simp [Loop.Inv]
  obtain ⟨_, m, hm, h⟩ := iter_refines proc cbrun n ⟨s, queue, [], []⟩ hinv
  exact ⟨m, hm, by simpa [Loop.abs] using h⟩

/-- Events posted while an event is handled are dispatched after that event and before everything that was already
waiting: in every reachable loop state with current event `e`, the next agenda is `children(e) ++ everything waiting`. -/
theorem children_before_waiting {S Ev : Type} (proc : S → Ev → S × List Ev) (cbrun : S → Option (S × List Ev))
    (s : S) (queue : List Ev) (n : Nat) (st : Loop S Ev) (hreach : st = Loop.iter proc cbrun n ⟨s, queue, [], []⟩)
    (e : Ev) (rest : List Ev) (hc : st.cur = e :: rest) :
    ∃ st', Loop.step proc cbrun st = some st' ∧ st'.s = (proc st.s e).1 ∧
      st'.abs.agenda = (proc st.s e).2 ++ (rest ++ st.inner.flatten) := by
  have hinv : Loop.Inv st := hreach ▸ (iter_refines proc cbrun n ⟨s, queue, [], []⟩ (by simp [Loop.Inv])).1
  have hs := step_sim proc cbrun st hinv
  have hq : st.queue = [] := hinv.2.2 (by rw [hc]; simp)
  cases hst : Loop.step proc cbrun st with
  | none =>
    rw [hst] at hs
    simp [Spec.step, Loop.abs, hc] at hs
  | some st' =>
    rw [hst] at hs
    refine ⟨st', rfl, ?_⟩
    rcases hs.2 with ⟨h0, _⟩ | hstep
    · rw [hc] at h0; cases h0
    · simp only [Spec.step, Loop.abs, hc, hq, List.cons_append, List.append_nil, Option.some.injEq] at hstep
      have h1 := congrArg Spec.s hstep
      have h2 := congrArg Spec.agenda hstep
      simp only at h1 h2
      exact ⟨h1.symm, by simp only [Loop.abs]; rw [← h2]⟩

/-- A completion callback runs only when everything is drained: whenever the inner loop is not running
(`next_queue` empty) nothing is left stacked in `inner_queue`, so a callback step happens only with an empty agenda. -/
theorem callback_after_descendants {S Ev : Type} (proc : S → Ev → S × List Ev) (cbrun : S → Option (S × List Ev))
    (s : S) (queue : List Ev) (n : Nat)
    (hc : (Loop.iter proc cbrun n ⟨s, queue, [], []⟩).cur = [])
    (hq : (Loop.iter proc cbrun n ⟨s, queue, [], []⟩).queue = []) :
    (Loop.iter proc cbrun n ⟨s, queue, [], []⟩).abs.agenda = [] := by
  have hinv := (iter_refines proc cbrun n ⟨s, queue, [], []⟩ (by simp [Loop.Inv])).1
  simp [Loop.abs, hc, hq, hinv.1 hc]

/-- The loop never ends with an event or a callback left: when `process_event_queue` returns, the event queue, the
deque stack and the callback queue are all empty. -/
theorem loop_ends_drained {S Ev : Type} (proc : S → Ev → S × List Ev) (cbrun : S → Option (S × List Ev))
    (s : S) (queue : List Ev) (n : Nat)
    (hn : Loop.step proc cbrun (Loop.iter proc cbrun n ⟨s, queue, [], []⟩) = none) :
    let st := Loop.iter proc cbrun n ⟨s, queue, [], []⟩
    st.cur = [] ∧ st.inner = [] ∧ st.queue = [] ∧ cbrun st.s = none :=
  step_none_drained proc cbrun _ (iter_refines proc cbrun n ⟨s, queue, [], []⟩ (by simp [Loop.Inv])).1 hn

/-- Exactly-once bookkeeping of callbacks, for all handler programs: dispatching an event runs no callback and — when
no handler raised — queues its own callback exactly once (none if it has none); when a handler raised, the callback
is NOT queued (the code lets the exception leave `_process_event`) ... -/
theorem callback_registered_once (progs : Nat → Prog) (c : Core) (e : Posted) (hf : c.facts = Facts.canon) :
    cbSns (processEvent progs c e).1.log = cbSns c.log ∧
    (if (processEvent progs c e).1.raised then (processEvent progs c e).1.cbq = c.cbq else
      match e.cb with
      | none => (processEvent progs c e).1.cbq = c.cbq
      | some cb => ∃ kw, (processEvent progs c e).1.cbq = c.cbq ++ [(cb, e.sn, kw)]) :=
  processEvent_cbq progs c e hf

/-- ... and a callback step runs the LAST queued entry, removes exactly that entry and logs it once; together with
`callback_after_descendants` (it runs only with an empty agenda) an entry can never run twice. -/
theorem callback_at_most_once (progs : Nat → Prog) (c c' : Core) (posted : List Posted) (hf : c.facts = Facts.canon)
    (h : cbRun progs c = some (c', posted)) :
    ∃ pid sn kw, c.cbq = c'.cbq ++ [(pid, sn, kw)] ∧ c'.log = c.log ++ [Obs.cb pid sn kw] :=
  cbRun_pops progs c c' posted hf h

/-- One dispatch (plain, boolean or relay; with or without blocking facilities) in which no handler raises calls exactly
the handlers of the snapshot taken when the dispatch begins that are not blocked by a `_min_priority` returned earlier in
this dispatch and whose condition holds on the merged kwargs, each once, in list order (= descending priority by
`reg_sorted`), boolean events up to the first `False`, relay events each on the fold so far — whatever the handlers do
to the registry meanwhile (a peer removed or replaced before its turn is still called from the snapshot, one added
meanwhile is not, nobody is skipped or called twice). -/
theorem dispatch_set (progs : Nat → Prog) (c : Core) (e : Posted) (hr : (processEvent progs c e).1.raised = false) :
    (processEvent progs c e).1.log = c.log ++ dispCalls progs e.ev e.sn e.ty (regGet c.reg e.ev) e.kw := by
  obtain ⟨n, h1, h2⟩ := processEvent_log progs c e
  rw [h1, List.take_of_length_le (h2 hr)]

/-- ... and when a handler raises, what has been delivered is a prefix of that list: every handler in front of the
raising one exactly once and in order, nobody behind it (`EventHandlerException` ends `_run_handlers`). -/
theorem dispatch_prefix_on_exception (progs : Nat → Prog) (c : Core) (e : Posted) :
    ∃ n, (processEvent progs c e).1.log = c.log ++ (dispCalls progs e.ev e.sn e.ty (regGet c.reg e.ev) e.kw).take n := by
  obtain ⟨n, h1, _⟩ := processEvent_log progs c e
  exact ⟨n, h1⟩

/-- `_min_priority` never suppresses a handler that has no blocking facility, and a handler with a facility is left out
only when the limit of `all` or the limit of its own facility, as stored in the event's kwargs, is above its priority. -/
theorem blocking_sound (kw : Kw) (h : Handler) :
    (h.fac = none → blocked kw h = false) ∧
    (blocked kw h = true → ∃ f mp, h.fac = some f ∧ kwGet kw minPrio = some (.dict mp) ∧
      ((∃ a, dGet mp 0 = some a ∧ a > h.prio) ∨ (∃ v, dGet mp f = some v ∧ v > h.prio))) := by
  constructor
  · intro hn; simp [blocked, hn]
  · intro hb
    unfold blocked at hb
    split at hb
    · rename_i f mp hfac hkw
      refine ⟨f, mp, hfac, hkw, ?_⟩
      simp only [Bool.or_eq_true] at hb
      rcases hb with hb | hb
      · left
        split at hb
        · rename_i a ha; exact ⟨a, ha, by simpa using hb⟩
        · cases hb
      · right
        split at hb
        · rename_i v hv; exact ⟨v, hv, by simpa using hb⟩
        · cases hb
    · cases hb

/-- With the event monitor on, `_post` has no fast path: every post is queued (also one without handler and callback)
and reported to the monitor exactly once, under its own serial, with the posted kwargs. -/
theorem monitor_reports_every_post (c : Core) (ev : Nat) (ty : Ty) (cb : Option Nat) (kw : Kw) (hm : c.mon = true) :
    (runAct c (.post ev ty cb kw)).2 = [⟨ev, ty, cb, kw, c.nextSn⟩] ∧
    (runAct c (.post ev ty cb kw)).1.mlog = c.mlog ++ [(c.log.length, SObs.mon ev c.nextSn kw)] := by
  simp [runAct, hm]

/-- A future of `wait_for_event` / `wait_for_any_event` is resolved at most once, whatever programs run: no future is
reported twice in the side log (a second `set_result` raises instead). -/
theorem future_resolves_once (c : Core) (acts : List Act) (h : FutInv c) : FutInv (runActs c acts).1 :=
  runActs_futInv c acts h

/-- An exception ends the invocation of `process_event_queue`: when the dispatch of the current event `e` raises, the
events still waiting in `next_queue` (`rest`) and in `inner_queue` are dropped (they are locals of the invocation),
`event_queue` keeps exactly what was posted during the interrupted dispatch, and `callback_queue` is as it was before the
dispatch — the callback of `e` is not queued.  (This is what the code does; MPF treats an exception in a handler as
fatal and shuts down.) -/
theorem exception_ends_invocation (progs : Nat → Prog) (b : Bus) (e : Posted) (rest : List Posted)
    (hc : b.cur = e :: rest) (hf : b.s.facts = Facts.canon) (hr : (processEvent progs b.s e).1.raised = true) :
    ∃ s', Bus.stepX progs b = some (⟨s', b.queue ++ (processEvent progs b.s e).2, [], []⟩, true) ∧
      s'.cbq = b.s.cbq ∧ s'.raised = false ∧ s'.reg = (processEvent progs b.s e).1.reg ∧
      s'.log = (processEvent progs b.s e).1.log := by
  have hcb := (processEvent_cbq progs b.s e hf).2
  rw [hr] at hcb
  simp only [if_true] at hcb
  refine ⟨{ (processEvent progs b.s e).1 with raised := false, mlog := (processEvent progs b.s e).1.mlog ++
      [((processEvent progs b.s e).1.log.length, SObs.exc)] }, ?_, ?_⟩
  · simp only [Bus.stepX, hc, hf, Facts.canon, popAt, hr, if_true, enq_right]
  · exact ⟨hcb, rfl, rfl, rfl⟩

/-! ### the facts of the source are the facts of the model -/

/-- What the translator read from `mpf/core/events.py` (regenerated on every check) is what all theorems here assume:
`add_handler` appends and sorts by priority, descending; `_run_handlers` iterates a copy of the list; `_post` appends to
the right of `event_queue`; `process_event_queue` pops `next_queue` and `inner_queue` on the left, pushes `inner_queue`
on the left and pops `callback_queue` on the right; `_process_event` appends callbacks on the right. -/
theorem source_facts_canonical : Gen.EventFacts.sourceFacts = Facts.canon := by decide

/-- hence one iteration of the loop the driver runs (deque ends from the source) is the iteration the refinement
theorems are about -/
theorem source_loop_is_model_loop {S Ev : Type} (proc : S → Ev → S × List Ev) (cbrun : S → Option (S × List Ev))
    (st : Loop S Ev) : Loop.stepF Gen.EventFacts.sourceFacts proc cbrun st = Loop.step proc cbrun st := by
  rw [source_facts_canonical]; exact Loop.stepF_canon proc cbrun st

/-- ... and the registration the driver runs (sort facts from the source) is the one `reg_sorted` / `reg_stable` /
`replace_lands` are about -/
theorem source_registry_is_model_registry (r : Reg) (ev : Nat) (h : Handler) :
    addHandlerF Gen.EventFacts.sourceFacts r ev h = addHandler r ev h ∧
    replaceHandlerF Gen.EventFacts.sourceFacts r ev h = replaceHandler r ev h := by
  rw [source_facts_canonical]; exact ⟨rfl, rfl⟩

/-- merged kwargs = posted ⊕ registered, the handler's value wins -/
theorem merge_handler_wins (posted hkw : Kw) (k : Nat) (hu : (hkw.map Prod.fst).Nodup) :
    kwGet (kwUpdate posted hkw) k = match kwGet hkw k with | some v => some v | none => kwGet posted k :=
  kwGet_kwUpdate posted hkw k hu

/-- the handler lists stay sorted through everything handlers, callbacks and top-level code do -/
theorem reg_sorted_preserved (c : Core) (acts : List Act) (hf : c.facts = Facts.canon) (h : RegSorted c.reg) :
    RegSorted (runActs c acts).1.reg :=
  runActs_reg_sorted c acts hf h

/-! ### non-vacuity: a 3-level posting tree, equal priorities, a handler removing a later one and adding a new one -/

def exProgs : Nat → Prog
  | 1 => ⟨[.post 2 .plain (some 9) [], .removeKey 1 12, .add 1 ⟨14, 5, [], none, 0, 0, none⟩, .post 3 .plain (some 8) []], .none⟩
  | 2 => ⟨[.post 4 .plain (some 7) [(1, .int 1)]], .none⟩
  | 8 => ⟨[.post 5 .plain none []], .none⟩
  | _ => ⟨[], .none⟩

def exBus : Bus :=
  (Bus.top { s := {} } [.add 1 ⟨11, 0, [], none, 1, 1, none⟩, .add 1 ⟨12, 0, [(1, .int 7)], none, 0, 0, none⟩, .add 2 ⟨13, 0, [], none, 2, 2, none⟩,
    .add 3 ⟨15, 0, [], none, 0, 0, none⟩, .add 4 ⟨16, 0, [], some (1, 1), 0, 0, none⟩, .add 5 ⟨17, 0, [], none, 0, 0, none⟩,
    .post 1 .plain (some 9) [(1, .int 1)], .post 5 .plain (some 7) []])

/-- a(1) posts b(2), c(3); b posts d(4); e(5) was waiting: a b d c e, then callbacks last-first, the callback of c posts e -/
example : ((Bus.drain exProgs 100 exBus).map (fun b => b.s.log.map showObs)) =
    some ["c11.1.1:1", "c12.1.1:7", "c13.2.-", "c16.4.1:1", "c15.3.-", "c17.5.-", "b7.1.-", "b8.3.-", "c17.5.-",
      "b7.4.1:1", "b9.2.-", "b9.0.1:1"] := by decide

/-- the `replace_handler` idiom during the handler's own dispatch (self, an already served peer, a waiting peer; and
`remove_handler(method)` of a waiting peer): nobody is skipped in the running dispatch; the next post sees the new order -/
def exProgs2 : Nat → Prog
  | 1 => ⟨[.replace 1 ⟨21, 30, [], none, 1, 1, none⟩], .none⟩
  | 2 => ⟨[.replace 1 ⟨22, 5, [], none, 3, 3, none⟩, .removeFn 4], .none⟩
  | _ => ⟨[], .none⟩

example : ((Bus.drain exProgs2 100 (Bus.top { s := {} } [.add 1 ⟨11, 30, [], none, 1, 1, none⟩, .add 1 ⟨12, 20, [], none, 2, 2, none⟩,
      .add 1 ⟨13, 10, [], none, 3, 3, none⟩, .add 1 ⟨14, 10, [(1, .int 1)], none, 4, 4, none⟩, .post 1 .plain none [], .post 1 .boolean none []])).map
      (fun b => (b.s.log.map showObs, (regGet b.s.reg 1).map (·.key)))) =
    some (["c11.1.-", "c12.1.-", "c13.1.-", "c14.1.1:1", "c21.1.-", "c12.1.-", "c22.1.-"], [21, 12, 22]) := by decide

/-- blocking, an exception and a future in one run: handler 11 (priority 5) returns `{"_min_priority": {all: 0, f1: 4}}`,
so 12 (facility f1, priority 3) is skipped while 13 (facility f1, priority 4) and 14 (no facility) are called with the
limit in their kwargs; event 2's handler raises: event 3, which was waiting behind it, is never dispatched and the
callback of event 2 never runs, the callback of event 1 stays queued; the wait handler 15 resolves future 7 once. -/
def exProgs3 : Nat → Prog
  | 1 => ⟨[], .block [(0, 0), (1, 4)]⟩
  | 2 => ⟨[.raise], .none⟩
  | 7 => ⟨[.removeKey 1 15, .resolve 7], .none⟩
  | _ => ⟨[], .none⟩

example : ((Bus.soon exProgs3 10 (Bus.top { s := {} } [.add 1 ⟨11, 5, [], none, 1, 1, none⟩, .add 1 ⟨12, 3, [], none, 0, 0, some 1⟩,
      .add 1 ⟨13, 4, [], none, 0, 0, some 1⟩, .add 1 ⟨14, 0, [], none, 0, 0, none⟩, .add 1 ⟨15, 1, [], none, 7, 20015, none⟩,
      .add 2 ⟨16, 0, [], none, 2, 2, none⟩, .add 3 ⟨17, 0, [], none, 0, 0, none⟩,
      .post 1 .plain (some 9) [], .post 2 .plain (some 8) [], .post 3 .plain none []])).map
      (fun b => (b.s.log.map showObs, b.s.mlog.map (fun p => showSObs p.2), b.queue.length, b.s.cbq.map (·.1)))) =
    some (["c11.1.-", "c13.1.100:{0:0;1:4}", "c15.1.100:{0:0;1:4}", "c14.1.100:{0:0;1:4}", "c16.2.-"], ["f7", "x"], 0, [9]) := by
  decide

end MpfVerif.C01
