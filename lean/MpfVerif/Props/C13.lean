import MpfVerif.Lemmas.Delay
import MpfVerif.Lemmas.DelayGen
import MpfVerif.Lemmas.ClockGen
import MpfVerif.Lemmas.TimerDevice
/-!
# C13 — Delays and periodic timers fire exactly when promised, or never

Property theorems about `Model/Delay.lean` (DelayManager + PeriodicTask), the model that `harness/corr/C13.py` runs
against the real code.  All statements are over **every** program table `P` (what callbacks do: re-add, remove,
run_now, clear, start/cancel periodic tasks …), **every** op sequence (`Op.cmd` calls at any instant, `Op.to` time steps,
`Op.fire`/`Op.pfire` = the loop's choice among due timers, i.e. every schedule) and every reachable state.
The Timer device (`timer.py`) has its own model (`Model/TimerDevice.lean`, second half of this file); `Mode.stop` /
`_finish_stop` are mode-level operations of the delay model (`MOp`, `never_after_mode_stop`).
-/
namespace MpfVerif.C13
open MpfVerif.Delay

/-- **fires_once_at_due.**  In every run from the initial state, for every program table (callbacks may re-add, remove,
clear, `run_now`, raise, and *block the loop* for any time) and every schedule: a callback the loop fires (`fired hd t`)
never runs before the due tick of its handle (`hd.due` = time of the `add`/`reset` + ms; a negative ms is due at once),
and runs at **exactly** that tick when no callback of the run blocked the loop (`blocked d` is the observation of a
callback that took `d` ticks); that handle with exactly this name, callback and argument was scheduled earlier in the run
(`sched hd`), and no handle id fires twice.  How late a blocked loop may deliver is bounded by `late_only_while_blocked`. -/
theorem fires_once_at_due (P : Nat → List Cmd) (ops : List Op) (s : St) (tr : List Obs)
    (h : run P init ops = some (s, tr)) :
    (∀ hd t, .fired hd t ∈ tr → hd.due ≤ t ∧ ((∀ d, Obs.blocked d ∉ tr) → t = hd.due) ∧ .sched hd ∈ tr) ∧
    (firedHids tr).Nodup := by
  obtain ⟨a, b, _⟩ := fires_once_at_due_from P ops init (s, tr) init_inv h
  refine ⟨?_, b⟩
  intro hd t hh
  obtain ⟨c1, c2⟩ := a hd t hh
  refine ⟨c1.1, fun hb => c1.2 hb rfl, ?_⟩
  rcases c2 with c | c
  · simp [init] at c
  · exact c

/-- **late_only_while_blocked** (late delivery shifts nothing else).  In every reachable state `slack` is the time for which
callbacks have blocked the loop since it was last idle (`to` resets it, `block d` adds `d`, nothing else changes it).
(a) A delay the loop fires in that state is late by at most `slack`, and so is a periodic tick; with `slack = 0` both are
exact.  (b) The loop never sleeps past anything that is due: a `to t` step is impossible while a live delay or a running
periodic task is due before `t` — so a late callback is delivered in the first loop iteration at or after its due tick —
and (c) lateness never moves a deadline: `due` of every other pending handle is what `add` computed (handles are
immutable in the model; `fires_once_at_due` shows each fires against its own `due`). -/
theorem late_only_while_blocked (P : Nat → List Cmd) (ops : List Op) (s : St) (tr : List Obs)
    (h : run P init ops = some (s, tr)) :
    (∀ hid r, step P s (.fire hid) = some r → ∀ hd t, .fired hd t ∈ r.2 → hd.due ≤ t ∧ t ≤ hd.due + s.slack) ∧
    (∀ pid r, step P s (.pfire pid) = some r → ∀ k n t, .tick k n t ∈ r.2 →
        ∃ p ∈ r.1.pers, p.pid = k ∧ p.t0 + n * p.interval ≤ t ∧ t ≤ p.t0 + n * p.interval + s.slack) ∧
    (∀ t r, step P s (.to t) = some r → (∀ hd ∈ s.live, t ≤ hd.due) ∧
        (∀ p ∈ s.pers, p.canceled = false → t ≤ p.t0 + (p.count + 1) * p.interval) ∧ r.1.slack = 0) := by
  have i : Inv s := run_inv P ops init (s, tr) init_inv h
  refine ⟨?_, ?_, ?_⟩
  · intro hid r hr hd t hf
    exact ((step_facts P s (.fire hid) r i hr).fired_ok hd t hf).2.1
  · intro pid r hr k n t hf
    obtain ⟨_, p', hp', a1, a2, _⟩ := (step_facts P s (.pfire pid) r i hr).tick_ok k n t hf
    exact ⟨p', hp', a1, a2.1, a2.2⟩
  · intro t r hr
    simp only [step] at hr
    split at hr
    · rename_i c
      obtain ⟨_, c2, c3⟩ := c
      simp only [List.all_eq_true, decide_eq_true_eq, Bool.or_eq_true] at c2 c3
      injection hr with hr; subst hr
      refine ⟨c2, ?_, rfl⟩
      intro p hp hc
      rcases c3 p hp with a | a
      · simp [hc] at a
      · have := i.last_eq p hp
        simp only [Per.due] at a
        rw [Nat.succ_mul]; omega
    · cases hr

/-- **never_after_cancel.**  If anywhere in a run a handle was cancelled (`remove`, replacement by `add`/`reset` under
the same name, `clear`, `run_now` — each emits `cancel hid` for the handle it unschedules), then no continuation of that
run, whatever it does, fires that handle.  (Within one step a `fired` observation is always the first one, so a firing
cannot follow a cancel inside the same step either.)  The remaining way of the property's text — *its owning mode stops
first* — is `never_after_mode_stop` below: `Mode.stop()` and `_finish_stop()` are `clear`s at mode-level operations. -/
theorem never_after_cancel (P : Nat → List Cmd) (ops1 ops2 : List Op) (s0 s1 s2 : St) (tr1 tr2 : List Obs) (hid : Nat)
    (i : Inv s0) (h1 : run P s0 ops1 = some (s1, tr1)) (hc : .cancel hid ∈ tr1)
    (h2 : run P s1 ops2 = some (s2, tr2)) : ∀ hd t, .fired hd t ∈ tr2 → hd.hid ≠ hid := by
  intro hd t hf e
  have d : Dead s1 hid := cancel_dead_run P ops1 s0 (s1, tr1) hid i h1 hc
  have i1 : Inv s1 := run_inv P ops1 s0 (s1, tr1) i h1
  obtain ⟨_, _, c⟩ := fires_once_at_due_from P ops2 s1 (s2, tr2) i1 h2
  exact c hid (mem_firedHids.mpr ⟨hd, t, hf, e⟩) d

/-- **never_after_mode_stop** (`never_after_cancel` for "its owning mode stops first"; `Mode.stop` → `delay.clear()`,
`_finish_stop` → `delay.clear()` are operations of the model: `MOp.stop` / `MOp.finish`).  Take any history `pre` of a running
mode's delay manager (calls from anywhere, time, firings, blocked loops — also further `stop`s, which do nothing), then
`Mode.stop()`, then any history `hold` while a handler **holds the `mode_<name>_stopping` queue** (time passes, handlers
and callbacks add / reset / run_now on the mode's manager, the loop fires what comes due, `stop()` is called again …), then
the release of the queue (`_stopped` / `_finish_stop`), then any history `post`.  Then
(a) no delay that was pending when `stop()` was called ever fires — not while the queue is held, not afterwards;
(b) no delay added while the mode was stopping and still pending at the release ever fires afterwards;
(c) right after `stop()` and right after the release the manager holds nothing (`check()` is false for every name), and no
    time passes in either;
(d) the whole history is one run of the model (`mflat`), so every other theorem of this file applies to it: in particular a
    delay added during the hold fires at its due tick exactly once, or is cancelled by the release. -/
theorem never_after_mode_stop (P : Nat → List Cmd) (pre hold post : List MOp) (s1 s2 s3 s4 s5 : St)
    (tr1 o1 tr2 o2 tr3 : List Obs) (hpre : mphase 0 pre = 0) (hhold : mphase 1 hold = 1)
    (h1 : mrun P init 0 pre = some (s1, tr1)) (h2 : mrun P s1 0 [.stop] = some (s2, o1))
    (h3 : mrun P s2 1 hold = some (s3, tr2)) (h4 : mrun P s3 1 [.finish] = some (s4, o2))
    (h5 : mrun P s4 2 post = some (s5, tr3)) :
    (∀ h ∈ s1.live, ∀ hd t, .fired hd t ∈ tr2 ++ o2 ++ tr3 → hd.hid ≠ h.hid) ∧
    (∀ h ∈ s3.live, ∀ hd t, .fired hd t ∈ tr3 → hd.hid ≠ h.hid) ∧
    (s2.live = [] ∧ s2.delays = [] ∧ s2.now = s1.now ∧ s4.live = [] ∧ s4.delays = [] ∧ s4.now = s3.now ∧
      (∀ n, (stepCmd P s2 (.check n)).2.1 = [.checked n false]) ∧
      (∀ n, (stepCmd P s4 (.check n)).2.1 = [.checked n false])) ∧
    mrun P init 0 (pre ++ [.stop] ++ hold ++ [.finish] ++ post) = some (s5, tr1 ++ o1 ++ tr2 ++ o2 ++ tr3) := by
  simp only [mrun] at h1 h2 h3 h4 h5
  have e2 : mflat 0 [MOp.stop] = [.cmd .clear] := rfl
  have e4 : mflat 1 [MOp.finish] = [.cmd .clear] := rfl
  rw [e2] at h2; rw [e4] at h4
  have i1 : Inv s1 := run_inv P _ init (s1, tr1) init_inv h1
  have i2 : Inv s2 := run_inv P _ s1 (s2, o1) i1 h2
  have i3 : Inv s3 := run_inv P _ s2 (s3, tr2) i2 h3
  obtain ⟨c1, l2, d2, n2⟩ := clear_step P s1 i1 (s2, o1) h2
  obtain ⟨c3, l4, d4, n4⟩ := clear_step P s3 i3 (s4, o2) h4
  have h45 := run_append P _ _ s3 s4 s5 o2 tr3 h4 h5
  have h345 := run_append P _ _ s2 s3 s5 tr2 (o2 ++ tr3) h3 h45
  refine ⟨?_, ?_, ⟨l2, d2, n2, l4, d4, n4, ?_, ?_⟩, ?_⟩
  · intro h hh hd t hf
    have := never_after_cancel P _ _ s1 s2 s5 o1 (tr2 ++ (o2 ++ tr3)) h.hid i1 h2 (c1 h hh) h345 hd t
      (by simpa [List.append_assoc] using hf)
    exact this
  · intro h hh hd t hf
    exact never_after_cancel P _ _ s3 s4 s5 o2 tr3 h.hid i3 h4 (c3 h hh) h5 hd t hf
  · intro n; have d2' : s2.delays = [] := d2; simp [stepCmd, d2']
  · intro n; have d4' : s4.delays = [] := d4; simp [stepCmd, d4']
  · simp only [mrun]
    have f1 : mflat 0 (pre ++ [MOp.stop] ++ hold ++ [MOp.finish] ++ post) =
        mflat 0 pre ++ ([.cmd .clear] ++ (mflat 1 hold ++ ([.cmd .clear] ++ mflat 2 post))) := by
      simp only [List.append_assoc]
      rw [mflat_append pre, hpre]
      show mflat 0 pre ++ (.cmd .clear :: mflat 1 (hold ++ ([MOp.finish] ++ post))) = _
      rw [mflat_append hold, hhold]
      rfl
    rw [f1]
    have h2345 := run_append P _ _ s1 s2 s5 o1 _ h2 h345
    have := run_append P _ _ init s1 s5 tr1 _ h1 h2345
    simpa [List.append_assoc] using this

/-- non-vacuity of `never_after_mode_stop`: delay 0 (2 ticks) is pending when the mode stops; the stopping handler adds delay
1 (1 tick) and delay 2 (4 ticks) and holds the queue for 2 ticks: delay 1 fires inside the hold (the mode has not stopped
yet), the release kills delay 2; neither 0 nor 2 ever fires, and firing them is not even enabled. -/
example :
    (mrun (fun _ => []) init 0 [.op (.cmd (.add 2 0 0 1)), .op (.to 1), .stop, .op (.cmd (.add 1 1 1 5)),
      .op (.cmd (.add 4 2 1 6)), .stop, .op (.to 2), .op (.fire 1), .op (.to 3), .finish, .op (.to 9)]).map
        (fun r => (r.2.filterMap showObs, r.1.live, r.1.delays)) = some (["F 1 1 5 2"], [], []) ∧
    mphase 0 [.op (.cmd (.add 2 0 0 1)), .op (.to 1)] = 0 ∧ mphase 1 [.op (.cmd (.add 1 1 1 5)), .stop, .op (.to 2)] = 1 ∧
    mrun (fun _ => []) init 0 [.op (.cmd (.add 2 0 0 1)), .op (.to 1), .stop, .op (.to 2), .op (.fire 0)] = none := by
  decide

/-- What the cancelling calls cancel, in terms of *names*: after `remove n` no live handle carries name `n`; after
`clear` there is no live handle of this manager at all; after `add`/`reset` under name `n` the only live handle named `n`
is the new one.  (With `never_after_cancel`: the callback scheduled earlier under that name never runs.) -/
theorem cancel_by_name (P : Nat → List Cmd) (s : St) (i : Inv s) (n : Nat) :
    (∀ h ∈ (stepCmd P s (.remove n)).1.live, h.name ≠ n) ∧ (stepCmd P s .clear).1.live = [] ∧
    (∀ ms cb a, ∀ h ∈ (stepCmd P s (.add ms n cb a)).1.live, h.name = n → h.hid = (popName s n).1.nextId) ∧
    (∀ ms cb a, ∀ h ∈ (stepCmd P s (.reset ms n cb a)).1.live, h.name = n → s.nextId ≤ h.hid) := by
  refine ⟨?_, ?_, ?_, ?_⟩
  · intro h hh e
    have g := popName_good s n i
    exact popName_noname s n _ (g.inv.live_entry h hh) e
  · have g := doClear_good s i
    have : (doClear s).1.delays = [] := rfl
    cases hl : (doClear s).1.live with
    | nil => exact hl
    | cons x r =>
      have := g.inv.live_entry x (by rw [hl]; simp)
      simp [doClear] at this
  · intro ms cb a h hh e
    have g1 := popName_good s n i
    simp only [stepCmd, doAdd_eq, schedSt] at hh
    rcases List.mem_append.mp hh with c | c
    · exact absurd e (popName_noname s n _ (g1.inv.live_entry h c))
    · simp at c; subst c; rfl
  · intro ms cb a h hh e
    have g := (stepCmd_good P s (.reset ms n cb a) i)
    rcases g.live_from h hh with c | ⟨_, c⟩
    · -- an old handle named n cannot survive: the final `add` pops the name
      exfalso
      simp only [stepCmd] at hh
      split at hh
      · have g1 := popName_good s n i
        have g2 := popName_good _ n g1.inv
        simp only [doAdd_eq, schedSt] at hh
        rcases List.mem_append.mp hh with d | d
        · exact popName_noname _ n _ (g2.inv.live_entry h d) e
        · simp at d
          have := i.hid_lt h c
          have := g1.next_le
          have := g2.next_le
          rw [d] at *
          simp at *
          omega
      · have g1 := popName_good s n i
        simp only [doAdd_eq, schedSt] at hh
        rcases List.mem_append.mp hh with d | d
        · exact popName_noname _ n _ (g1.inv.live_entry h d) e
        · simp at d
          have := i.hid_lt h c
          have := g1.next_le
          rw [d] at *
          simp at *
          omega
    · exact c

/-- **fires_unless_cancelled** ("exactly once … unless removed/replaced"): at the end of every run every handle that was
ever scheduled has fired, or was cancelled, or is still pending and *not overdue* beyond the time for which the loop is
blocked right now (`s.now ≤ h.due + s.slack`; `slack = 0` whenever the loop has been idle since) — the loop cannot have
slept past its due tick without it firing (`late_only_while_blocked` (b)). -/
theorem fires_unless_cancelled (P : Nat → List Cmd) (ops : List Op) (s : St) (tr : List Obs)
    (h : run P init ops = some (s, tr)) :
    ∀ hd, .sched hd ∈ tr → (hd ∈ s.live ∧ s.now ≤ hd.due + s.slack) ∨ .cancel hd.hid ∈ tr ∨ hd.hid ∈ firedHids tr := by
  intro hd hs
  have i : Inv s := run_inv P ops init (s, tr) init_inv h
  rcases (accounted_from P ops init (s, tr) init_inv h).2 hd hs with a | a
  · exact Or.inl ⟨a, i.due_ge hd a⟩
  · exact Or.inr a

/-- **check_truthful.**  In every reachable state `check(n)` answers true iff a live handle named `n` exists, i.e. iff
a callback scheduled under that name is actually going to be run by the loop. -/
theorem check_truthful (P : Nat → List Cmd) (ops : List Op) (s : St) (tr : List Obs) (n : Nat)
    (h : run P init ops = some (s, tr)) :
    (stepCmd P s (.check n)).2.1 = [.checked n (decide (∃ hd ∈ s.live, hd.name = n))] := by
  have i : Inv s := run_inv P ops init (s, tr) init_inv h
  simp only [stepCmd]
  congr 2
  rw [Bool.eq_iff_iff]
  simp only [List.any_eq_true, beq_iff_eq, decide_eq_true_eq]
  constructor
  · rintro ⟨e, he, hn⟩
    obtain ⟨hd, hh, e1⟩ := i.entry_live e he
    exact ⟨hd, hh, by rw [← hn, ← e1]; rfl⟩
  · rintro ⟨hd, hh, hn⟩
    exact ⟨entryOf hd, i.live_entry hd hh, hn⟩

/-- **run_now_same_args_and_cancels.**  In every reachable state with a live handle `hd` named `n`, `run_now(n)` calls
exactly `hd`'s callback with `hd`'s argument now (the observation and the program pushed on the agenda), unschedules
`hd` (it is dead afterwards: it will never fire) and leaves no live handle under that name.  (`endTry` marks the end of
the `try … except KeyError` that `run_now` has around the callback: a KeyError raised by the callback's program unwinds
to it and is swallowed — `Gen`: `run_now_swallows_exactly_KeyError`.) -/
theorem run_now_same_args_and_cancels (P : Nat → List Cmd) (ops : List Op) (s : St) (tr : List Obs) (n : Nat)
    (hd : Handle) (h : run P init ops = some (s, tr)) (hl : hd ∈ s.live) (hn : hd.name = n) :
    .ranNow (entryOf hd) s.now ∈ (stepCmd P s (.runNow n)).2.1 ∧ (stepCmd P s (.runNow n)).2.2 = P hd.cb ++ [.endTry] ∧
    Dead (stepCmd P s (.runNow n)).1 hd.hid ∧ ∀ x ∈ (stepCmd P s (.runNow n)).1.live, x.name ≠ n := by
  have i : Inv s := run_inv P ops init (s, tr) init_inv h
  have he := i.live_entry hd hl
  cases hf : s.delays.find? (fun e => e.name == n) with
  | none =>
    have := List.find?_eq_none.mp hf (entryOf hd) he
    simp [entryOf, hn] at this
  | some e =>
    obtain ⟨hm, hne⟩ := find_name hf
    have ee : e = entryOf hd := pairwise_uniq (fun a : Entry => a.name) i.names hm he (by simp [hne, entryOf, hn])
    subst ee
    have hs : stepCmd P s (.runNow n) = ((popName s n).1, (popName s n).2 ++ [.ranNow (entryOf hd) s.now], P hd.cb ++ [.endTry]) := by
      simp [stepCmd, St.entry?, hf, entryOf]
    rw [hs]
    have g := popName_good s n i
    refine ⟨by simp, rfl, ?_, ?_⟩
    · apply g.cancel_dead
      rw [popName_some hf]; simp [entryOf]
    · intro x hx e
      exact popName_noname s n _ (g.inv.live_entry x hx) e

/-- **periodic_no_drift** (over arbitrary late deliveries).  In every run — callbacks may block the loop for any time, so
ticks may be delivered late — the n-th callback of a periodic task (`tick pid n t`; `n` is the task's own running count,
starting at 1) is never before `t0 + n * interval`, where `t0`/`interval` are the creation time and interval of the
(unique, see `Inv.pids`) task with that id, and is at **exactly** that instant when nothing blocked the loop in the run.
Lateness is not carried forward: the (n+1)-th tick is enabled at `t0 + (n+1) * interval` whatever the time the n-th one
ran (`reachable_periodic_schedule_is_absolute`), missed ticks are delivered back to back and the loop cannot sleep before
the count has caught up (`late_only_while_blocked` (b)). -/
theorem periodic_no_drift (P : Nat → List Cmd) (ops : List Op) (s : St) (tr : List Obs)
    (h : run P init ops = some (s, tr)) : ∀ pid n t, .tick pid n t ∈ tr →
      ∃ p ∈ s.pers, p.pid = pid ∧ p.t0 + n * p.interval ≤ t ∧
        ((∀ d, Obs.blocked d ∉ tr) → t = p.t0 + n * p.interval) ∧ 1 ≤ n ∧ n ≤ p.count := by
  intro pid n t hh
  obtain ⟨p, hp, a1, a2, a3⟩ := periodic_no_drift_from P ops init (s, tr) init_inv h pid n t hh
  exact ⟨p, hp, a1, a2.1, fun hb => a2.2 hb rfl, a3⟩

/-- **reachable_periodic_schedule_is_absolute.**  In every reachable state, whatever lateness there has been, the next
callback of a periodic task that has made `count` callbacks is due at exactly `t0 + (count + 1) * interval`: the loop may
run it (`pfire`) iff it is not cancelled and that instant has come. -/
theorem reachable_periodic_schedule_is_absolute (P : Nat → List Cmd) (ops : List Op) (s : St) (tr : List Obs)
    (h : run P init ops = some (s, tr)) : ∀ p ∈ s.pers, p.due = p.t0 + (p.count + 1) * p.interval ∧
      ((step P s (.pfire p.pid)).isSome = true ↔ (p.canceled = false ∧ p.t0 + (p.count + 1) * p.interval ≤ s.now)) := by
  have i : Inv s := run_inv P ops init (s, tr) init_inv h
  intro p hp
  have hl := i.last_eq p hp
  have hd : p.due = p.t0 + (p.count + 1) * p.interval := by simp only [Per.due]; rw [Nat.succ_mul]; omega
  refine ⟨hd, ?_⟩
  have hf : s.pers.find? (fun q => q.pid == p.pid) = some p := by
    cases hq : s.pers.find? (fun q => q.pid == p.pid) with
    | none => have := List.find?_eq_none.mp hq p hp; simp at this
    | some q =>
      obtain ⟨hm, he⟩ := find_pid hq
      rw [pairwise_uniq (fun a : Per => a.pid) i.pids hm hp he]
  simp only [step, hf]
  rw [← hd]
  cases hc : p.canceled <;> simp

/-- **no_tick_after_cancel** (`no_tick_unless_running` for clock intervals): once `pcancel pid` was executed on an
existing task, no continuation of the run makes that task tick again. -/
theorem no_tick_after_cancel (P : Nat → List Cmd) (ops : List Op) (s0 s : St) (tr : List Obs) (pid : Nat) (i : Inv s0)
    (hp : pid < s0.pers.length) (h : run P (stepCmd P s0 (.pcancel pid)).1 ops = some (s, tr)) :
    ∀ n t, .tick pid n t ∉ tr := by
  have g := pcancel_good s0 pid i
  have d : PDead (stepCmd P s0 (.pcancel pid)).1 pid := pcancel_pdead s0 pid hp
  have key : ∀ (ops : List Op) (s1 : St) (r : St × List Obs), Inv s1 → PDead s1 pid → run P s1 ops = some r →
      ∀ n t, .tick pid n t ∉ r.2 := by
    intro ops
    induction ops with
    | nil => intro s1 r _ _ h n t; simp [run] at h; subst h; simp
    | cons op ops ih =>
      intro s1 r i1 d1 h n t hh
      obtain ⟨r1, r2, h1, h2, rfl⟩ := run_cons h
      have F := step_facts P s1 op r1 i1 h1
      rcases List.mem_append.mp hh with a | a
      · obtain ⟨⟨p, hp, e, c⟩, _⟩ := F.tick_ok pid n t a
        have := d1.2 p hp e
        simp [c] at this
      · exact ih r1.1 r2 F.inv (F.pdead pid d1) h2 n t a
  exact key ops _ (s, tr) g.inv d h

/-! ## the hand model is what `mpf/core/delays.py` says (translated source, regenerated on every check) -/

open MpfVerif.Py in
/-- the generated program of a DelayManager command and the arguments it is called with (`msv` is the `ms` argument as the
caller wrote it: an int or a float, any sign; `anon`: `add` without a name, the name comes from `uuid4`) -/
def srcOf (N : Names) (msv : PyVal) (anon : Bool) : Cmd → Option ((List Py.DSt ⊕ List Py.DTop) × List (String × PyVal))
  | .add _ n cb a =>
    some (.inl Gen.DelayOps.add, if anon then [("ms", msv), ("callback", .int cb), ("kwargs", .int a)]
                                  else [("ms", msv), ("callback", .int cb), ("name", N.nm n), ("kwargs", .int a)])
  | .addIf _ n cb a =>
    some (.inl Gen.DelayOps.add_if_doesnt_exist, [("ms", msv), ("callback", .int cb), ("name", N.nm n), ("kwargs", .int a)])
  | .reset _ n cb a =>
    some (.inl Gen.DelayOps.reset, [("ms", msv), ("callback", .int cb), ("name", N.nm n), ("kwargs", .int a)])
  | .remove n => some (.inl Gen.DelayOps.remove, [("name", N.nm n)])
  | .clear => some (.inr Gen.DelayOps.clear, [])
  | .runNow n => some (.inl Gen.DelayOps.run_now, [("name", N.nm n)])
  | .check n => some (.inl Gen.DelayOps.check, [("delay", N.nm n)])
  | _ => none

/-- the delay of the command is what the loop makes of the `ms` argument (µs; negative = now; see `usOf`) -/
def msOk (msv : MpfVerif.Py.PyVal) : Cmd → Prop
  | .add d _ _ _ => usOf msv = some d
  | .addIf d _ _ _ => usOf msv = some d
  | .reset d _ _ _ => usOf msv = some d
  | _ => True

/-- the fresh name `uuid4` answers is the name the anonymous `add` is modelled with -/
def freshOk (N : Names) (fr : MpfVerif.Py.PyVal) (anon : Bool) : Cmd → Prop
  | .add _ n _ _ => anon = true → fr = N.nm n
  | _ => True

open MpfVerif.Py in
def runSrc (c : Ctx) (ora : DOracle) (H : Dict) : (List Py.DSt ⊕ List Py.DTop) → List (String × PyVal) →
    Dict × List Eff × Except Err PyVal
  | .inl p, args => callD c ora H p args
  | .inr p, args => callT c ora H p args

open MpfVerif.Py in
/-- **delay_ops_refine_source.**  For every reachable-style state (`Inv`: the dict and the loop's live handles are coupled —
proved for all reachable states by `run_inv`), every command `add / add_if_doesnt_exist / reset / remove / clear / run_now /
check` on any name, callback, kwargs and any `ms` that is an int or a float (negative, zero, fractional), named or
anonymous: running the **translated source** of the method on the dict of the state and folding its calls on the clock
(`schedule_once`, `unschedule`), on the stored callback and on `uuid4` gives exactly what the hand model's `stepCmd`
computes — the same dict, the same live handles with the same due times, the same next handle id, the same handles
scheduled and cancelled in the same order, the same callbacks called with the same kwargs, and no call the model has no
meaning for.  Hence every theorem of this file about `stepCmd`/`run` is a theorem about `mpf/core/delays.py` as it is now.
What a called callback answers (a value, or any exception) is arbitrary. -/
theorem delay_ops_refine_source (P : Nat → List Cmd) (N : Names) (c : Ctx) (ora : DOracle) (s : Delay.St) (i : Inv s)
    (fr msv : PyVal) (anon : Bool) (ho : OraOk ora s.nextId fr) (cmd : Cmd) (prog : List Py.DSt ⊕ List Py.DTop)
    (args : List (String × PyVal)) (hsrc : srcOf N msv anon cmd = some (prog, args)) (hms : msOk msv cmd)
    (hfr : freshOk N fr anon cmd) :
    gen N s (runSrc c ora (heapOf N s.delays) prog args) = hand N (stepCmd P s cmd) := by
  cases cmd with
  | add d n cb a =>
    simp only [srcOf, Option.some.injEq, Prod.mk.injEq] at hsrc; obtain ⟨rfl, rfl⟩ := hsrc
    cases anon
    · exact add_refines P N c ora s i fr ho msv d n cb a hms
    · have := hfr rfl; subst this
      exact add_anon_refines P N c ora s i n ho msv d cb a hms
  | addIf d n cb a =>
    simp only [srcOf, Option.some.injEq, Prod.mk.injEq] at hsrc; obtain ⟨rfl, rfl⟩ := hsrc
    exact add_if_refines P N c ora s i fr ho msv d n cb a hms
  | reset d n cb a =>
    simp only [srcOf, Option.some.injEq, Prod.mk.injEq] at hsrc; obtain ⟨rfl, rfl⟩ := hsrc
    exact reset_refines P N c ora s i fr ho msv d n cb a hms
  | remove n =>
    simp only [srcOf, Option.some.injEq, Prod.mk.injEq] at hsrc; obtain ⟨rfl, rfl⟩ := hsrc
    exact remove_refines P N c ora s i fr ho n
  | clear =>
    simp only [srcOf, Option.some.injEq, Prod.mk.injEq] at hsrc; obtain ⟨rfl, rfl⟩ := hsrc
    exact clear_refines P N c ora s i fr ho
  | runNow n =>
    simp only [srcOf, Option.some.injEq, Prod.mk.injEq] at hsrc; obtain ⟨rfl, rfl⟩ := hsrc
    exact (run_now_refines P N c ora s i fr ho n).1
  | check n =>
    simp only [srcOf, Option.some.injEq, Prod.mk.injEq] at hsrc; obtain ⟨rfl, rfl⟩ := hsrc
    exact (check_refines P N c ora s n).1
  | pstart _ _ => simp [srcOf] at hsrc
  | pcancel _ => simp [srcOf] at hsrc
  | prestart _ _ _ => simp [srcOf] at hsrc
  | block _ => simp [srcOf] at hsrc
  | raise _ => simp [srcOf] at hsrc
  | endTry => simp [srcOf] at hsrc

open MpfVerif.Py in
/-- **check_and_callbacks_refine_source.**  (a) The translated `check(name)` returns exactly the model's answer.  (b) What
`run_now` pushes on the model's agenda is the program of exactly the callbacks the translated `run_now` called, each
followed by the `endTry` marker.  (c) The translated `_process_delay_callback(name, callback, **kwargs)` — what the loop
runs when a handle is due — drops the entry under the name, calls the stored callback with the stored kwargs and makes no
clock call: the `fire` step of the model. -/
theorem check_and_callbacks_refine_source (P : Nat → List Cmd) (N : Names) (c : Ctx) (ora : DOracle) (s : Delay.St) (i : Inv s)
    (fr : PyVal) (ho : OraOk ora s.nextId fr) (n : Nat) :
    (callD c ora (heapOf N s.delays) Gen.DelayOps.check [("delay", N.nm n)]).2.2 =
      .ok (.bool (s.delays.any (fun e => e.name == n))) ∧
    (stepCmd P s (.runNow n)).2.2 =
      pushedRunNow P (gen N s (callD c ora (heapOf N s.delays) Gen.DelayOps.run_now [("name", N.nm n)])).calls ∧
    (∀ h ∈ s.live,
      let r := gen N s (callD c ora (heapOf N s.delays) Gen.DelayOps.p_process_delay_callback
        [("name", N.nm h.name), ("callback", .int h.cb), ("kwargs", .int h.arg)])
      r.dict = heapOf N (s.delays.filter (fun e => e.name != h.name)) ∧ r.live = s.live ∧ r.nextId = s.nextId ∧
      r.obs = [] ∧ r.calls = [(h.cb, h.arg)] ∧ r.unknown = false) :=
  ⟨(check_refines P N c ora s n).2, (run_now_refines P N c ora s i fr ho n).2, fun h hl => pdc_refines N c ora s i fr ho h hl⟩

open MpfVerif.Py in
/-- **raising_callbacks_in_source** (a callback that raises).  In the translated source, for a pending delay: `run_now`
returns normally when the callback returns or raises `KeyError` (its `except KeyError` swallows it — the model's
`raise true` unwinds to the `endTry` marker) and passes every other exception on; the entry is gone and its handle
unscheduled *before* the callback runs in all three cases.  `_process_delay_callback` passes every exception on to the
loop, after the entry was dropped, and then does not run the event queue. -/
theorem raising_callbacks_in_source (N : Names) (c : Ctx) (ora : DOracle) (s : Delay.St) (i : Inv s) (fr : PyVal)
    (ho : OraOk ora s.nextId fr) (e : Entry) (n : Nat) (hf : s.delays.find? (fun e => e.name == n) = some e) (x : Err) :
    (ora (callEff e.cb e.arg) = .error x →
      (callD c ora (heapOf N s.delays) Gen.DelayOps.run_now [("name", N.nm n)]) =
        (heapOf N (popD s.delays n), popE s.delays n ++ [callEff e.cb e.arg],
          if x = "KeyError" then .ok .none else .error x)) ∧
    (ora (callEff e.cb e.arg) = .error x →
      (callD c ora (heapOf N s.delays) Gen.DelayOps.p_process_delay_callback
        [("name", N.nm n), ("callback", .int e.cb), ("kwargs", .int e.arg)]) =
        (heapOf N (popD s.delays n), [callEff e.cb e.arg], .error x)) := by
  constructor
  · intro hr
    have h1 := run_now_run N c ora s.delays i.names (argLocals [("name", N.nm n)]) n s.nextId fr ho
      (by simp [argLocals, List.lookup])
    simp only [hf, hr, swallow] at h1
    rw [callD_eq c ora _ _ _ h1]
    by_cases hx : x = "KeyError" <;> simp [hx, Except.map]
  · intro hr
    have h1 := pdc_run N c ora s.delays i.names
      (argLocals [("name", N.nm n), ("callback", .int e.cb), ("kwargs", .int e.arg)]) n e.cb e.arg s.nextId fr ho
      (by simp [argLocals, List.lookup]) (by simp [argLocals, List.lookup]) (by simp [argLocals, List.lookup])
    simp only [hr] at h1
    rw [callD_eq c ora _ _ _ h1]
    simp [Except.map]

/-! ## the periodic part of the hand model is what `mpf/core/clock.py` says (translated source, regenerated on every check) -/

open MpfVerif.Py in
/-- **periodic_refines_source.**  `Gen/ClockOps.lean` is `PeriodicTask.__init__/_schedule/_run/cancel/get_next_call_time`
and `ClockBase.schedule_once/schedule_interval/unschedule` of the current source as data (attributes of the task =
interpreter state; `loop.time`, `loop.call_at`, `loop.call_later`, `callable`, `event.cancel` and the call of the stored
callback = logged effects).  In every state `s` of the hand model, with a loop that does not raise and whose `time()` is
`s.now`:
(a) `schedule_interval(cb, iv)` creates exactly the task `doPStart` appends (`_last_call = now`, not cancelled) and asks the
    loop for its first run at `now + iv` = that task's `due`;
(b) `unschedule(x)` is `x.cancel()`, and `PeriodicTask.cancel()` sets `_canceled` and nothing else — `doPCancel`;
(c) for a task that is not cancelled, the model's `pfire` step is: move `last` on by one interval (`bumpPer`), count the
    callback, run the callback's program — and the translated `_run` does the same on the attributes: `_last_call` becomes
    `_last_call + _interval` **without asking `loop.time()`** (no drift: lateness of this run is not carried forward), the
    stored callback is called, and afterwards, on the attributes as the callback left them (`k` arbitrary up to cancelling
    the task: `c2`), the loop is asked for exactly one next run at the *new* `_last_call + _interval` iff the task is not
    cancelled now — `handSchedule` of the model's record, whose `due` has moved by exactly one interval;
(d) `_run` of a task that was cancelled while its handle was in the loop calls nothing and asks nothing of the loop (the
    model's `pfire` is disabled for it); (e) a callback that raises is passed on to the loop and the task is not rescheduled
    (the model ends the case there: `escaped`); (f) `get_next_call_time()` is the model's `due`;
(g) `ClockBase.schedule_once(cb, t)` is `loop.call_later(delay=t, callback=cb)` and returns its handle: the effect
    `clock.schedule_once` that `delay_ops_refine_source` folds is that call. -/
theorem periodic_refines_source (P : Nat → List Cmd) (c : Ctx) (ora : DOracle) (s : Delay.St)
    (ho : ClockOraOk ora s.now) :
    (∀ iv cb : Nat,
      callD c ora [] Gen.ClockOps.schedule_interval [("callback", .int cb), ("timeout", .flt iv)] =
        (taskHeap (newPer s.pers.length iv cb s.now), [callableEff (.int cb), timeEff, callAt (s.now + iv)],
          .ok (.str "obj:PeriodicTask")) ∧
      (doPStart s iv cb).1.pers = s.pers ++ [newPer s.pers.length iv cb s.now] ∧
      (newPer s.pers.length iv cb s.now).due = s.now + iv) ∧
    ((∀ ev H, callD c ora H Gen.ClockOps.unschedule [("event", ev)] = (H, [cancelEff ev], .ok .none)) ∧
     (∀ p, callD c ora (taskHeap p) Gen.ClockOps.cancel [] = (taskHeap { p with canceled := true }, [], .ok .none)) ∧
     (∀ pid, (doPCancel s pid).pers = s.pers.map (fun p => if p.pid == pid then { p with canceled := true } else p))) ∧
    (∀ pid p, s.pers.find? (fun q => q.pid == pid) = some p → p.canceled = false → p.due ≤ s.now →
      step P s (.pfire pid) = some
        ((exec P fuel { s with pers := s.pers.map (fun q => if q.pid == pid then bumpPer q else q) } (P p.cb)).1,
         .tick pid (p.count + 1) s.now ::
          (exec P fuel { s with pers := s.pers.map (fun q => if q.pid == pid then bumpPer q else q) } (P p.cb)).2) ∧
      (bumpPer p).due = p.due + p.interval ∧
      ∀ v k c2, ora (tickEff p.cb) = .ok v → k (taskHeap (bumpPer p)) = taskHeap { bumpPer p with canceled := c2 } →
        callCb c ora k (taskHeap p) Gen.ClockOps.p_run [] =
          (taskHeap { bumpPer p with canceled := c2 },
           tickEff p.cb :: handSchedule { bumpPer p with canceled := c2 }, .ok .none)) ∧
    (∀ p k, p.canceled = true →
      callCb c ora k (taskHeap p) Gen.ClockOps.p_run [] =
        (taskHeap { p with last := p.last + p.interval }, [], .ok .none)) ∧
    (∀ p k x, p.canceled = false → ora (tickEff p.cb) = .error x →
      callCb c ora k (taskHeap p) Gen.ClockOps.p_run [] =
        (taskHeap { p with last := p.last + p.interval }, [tickEff p.cb], .error x)) ∧
    (∀ p, callD c ora (taskHeap p) Gen.ClockOps.get_next_call_time [] = (taskHeap p, [], .ok (.flt p.due))) ∧
    (∀ cb t h, ora (callLater t cb) = .ok h →
      callD c ora [] Gen.ClockOps.schedule_once [("callback", cb), ("timeout", t)] =
        ([], [callableEff cb, callLater t cb], .ok h)) := by
  refine ⟨?_, ⟨?_, ?_, ?_⟩, ?_, ?_, ?_, ?_, ?_⟩
  · intro iv cb
    refine ⟨?_, rfl, rfl⟩
    rw [callD_eq c ora _ _ _ (schedule_interval_run c ora s.now ho _ iv cb s.pers.length
      (by simp [argLocals, List.lookup]) (by simp [argLocals, List.lookup]))]
    rfl
  · intro ev H
    rw [callD_eq c ora _ _ _ (unschedule_run c ora s.now ho H _ ev (by simp [argLocals, List.lookup]))]
    rfl
  · intro p
    rw [callD_eq c ora _ _ _ (cancel_run c ora p _)]
    rfl
  · intro pid; rfl
  · intro pid p hf hc hd
    refine ⟨?_, ?_, ?_⟩
    · simp [step, hf, hc, hd, bumpPer]
    · simp only [bumpPer, Per.due]
    · intro v k c2 hcb hk
      rw [callCb_eq c ora k _ _ _ (run_run c ora s.now ho p _ hc v hcb k c2 hk)]
      rfl
  · intro p k hc
    rw [callCb_eq c ora k _ _ _ (run_canceled c ora p _ hc k)]
    rfl
  · intro p k x hc hcb
    rw [callCb_eq c ora k _ _ _ (run_raises c ora p _ hc x hcb k)]
    rfl
  · intro p
    rw [callD_eq c ora _ _ _ (next_call_time_run c ora p _)]
    rfl
  · intro cb t h hh
    rw [callD_eq c ora _ _ _ (schedule_once_run c ora s.now ho _ cb t h (by simp [argLocals, List.lookup])
      (by simp [argLocals, List.lookup]) hh)]
    rfl

/- non-vacuity, computed by running the **translated source**: a task with interval 250000 µs created at 1000000 whose
`_run` is delivered whenever: `_last_call` becomes 1250000 and the next run is asked for at 1500000 — from the attributes
alone; a callback that cancels the task (`k` sets `_canceled`) leaves nothing scheduled; and `execCb` with a callback that
leaves the object alone is the plain interpreter. -/
open MpfVerif.Py in
example :
    let ora : DOracle := fun _ => .ok .none
    let p : Per := ⟨0, 3, 250000, 1000000, 0, 1000000, false⟩
    let cx : Py.Ctx := ⟨fun _ => .none, fun _ => .none⟩
    let r1 := callCb cx ora id (taskHeap p) Gen.ClockOps.p_run []
    let r2 := callCb cx ora (fun H => dictSet H (.str "_canceled") [.bool true]) (taskHeap p) Gen.ClockOps.p_run []
    let r3 := callD cx ora (taskHeap p) Gen.ClockOps.p_run []
    r1.1 = taskHeap (bumpPer p) ∧ r1.2.1 = [tickEff 3, callAt 1500000] ∧
    r2.1 = taskHeap { bumpPer p with canceled := true } ∧ r2.2.1 = [tickEff 3] ∧
    r3.1 = r1.1 ∧ r3.2.1 = r1.2.1 := by decide

/-- non-vacuity, computed by running the **translated source** (not the hand model): on a dict holding delay 7 (handle 3,
callback 2, kwargs 5) `add(-250, cb 4, name 7, kwargs 9)` unschedules handle 3, schedules a new handle with timeout
-0.25 s and stores it; the fold gives one live handle, due *now* (10), named 7.  `Names` exist (`n ↦ n + 1`). -/
def demoNames : Names := ⟨fun n => .int (n + 1), fun v => (natOf v) - 1, by intro n; simp [natOf],
  by intro n; simp [MpfVerif.Py.PyVal.truthy]; omega⟩

open MpfVerif.Py in
example :
    let s : Delay.St := { now := 10, nextId := 4, delays := [⟨7, 3, 2, 5⟩], live := [⟨3, 7, 2, 5, 12⟩] }
    let ora : DOracle := fun e => if e.meth = "schedule_once" then .ok (.int 4) else .ok .none
    let r := gen demoNames s (callD ⟨fun _ => .none, fun _ => .none⟩ ora (heapOf demoNames s.delays) Gen.DelayOps.add
      [("ms", .int (-250)), ("callback", .int 4), ("name", .int 8), ("kwargs", .int 9)])
    r.live = [⟨4, 7, 4, 9, 10⟩] ∧ r.obs = [.cancel 3, .sched ⟨4, 7, 4, 9, 10⟩] ∧ r.nextId = 5 ∧ r.unknown = false ∧
    r.dict = [(.int 8, [.int 4, .int 4, .int 9])] := by decide

/-! ## the hypotheses are satisfiable on concrete non-trivial runs (kernel evaluation) -/

/-- callback 1 re-adds name 0 with callback 2 and runs it at once; callback 2 removes name 1 -/
def demoP : Nat → List Cmd
  | 1 => [.reset 2 0 2 5, .runNow 0]
  | 2 => [.remove 1, .check 1]
  | _ => []

example : (run demoP init [.cmd (.add 2 0 1 1), .cmd (.add 2 1 2 2), .cmd (.add 2 2 0 3), .to 2, .fire 0, .fire 2,
    .cmd (.pstart 2 0), .to 4, .pfire 0, .to 6, .pfire 0, .cmd (.pcancel 0), .to 9]).map (fun r => r.2.filterMap showObs)
    = some ["F 0 1 1 2", "R 0 2 5 2", "C 1 0", "F 2 0 3 2", "T 0 1 4", "T 0 2 6"] := by decide

/-- time cannot pass a due live handle, and a cancelled handle cannot be fired -/
example : run demoP init [.cmd (.add 2 0 0 1), .to 3] = none ∧
    run demoP init [.cmd (.add 2 0 0 1), .cmd (.remove 0), .to 2, .fire 0] = none := by decide


/-! # The Timer device (`Model/TimerDevice.lean`)

All statements hold in every state reachable from a freshly loaded timer (`TimerDevice.init`) by any sequence of
start/stop/pause/add/subtract/jump/reset/restart/set_tick_interval/change_tick_interval calls, time steps, **stalls of the
loop of any length** (`Op.stall d`: the clock moves, nothing runs — every later delivery is late), runs of the system timer
and of the pause delay (`Timer.reachable`).  `slack` is the time the loop has been blocked since it was last idle; a run
without stalls has `slack = 0` throughout (`exact_without_stalls`). -/

end MpfVerif.C13

namespace MpfVerif.C13.Timer
open MpfVerif.TimerDevice

/-- reachable states of a timer with configuration `c` and initial tick interval `iv` -/
def reachable (c : Cfg) (iv : Nat) (s : T) : Prop := ∃ ops tr, run c (init c iv) ops = some (s, tr)

theorem reachable_inv {c : Cfg} {iv : Nat} {s : T} (h : reachable c iv s) : Inv c s := by
  obtain ⟨ops, tr, h⟩ := h
  exact run_inv c ops _ (s, tr) (init_inv c iv) h

/-- **no_tick_unless_running.**  (a) Whatever the operation, a `tick` event is only ever posted by a timer that is
running after that operation, carries its current count, and that count is not at/past the end value.  (b) The system
timer (`Op.clock`) produces anything only while the timer is running.  (c) A timer that is not running and has no
timed pause pending (stopped, paused without time, completed) stays silent for ever while only time passes — idle or
stalled loop alike: no event at all, whatever the clock does. -/
theorem no_tick_unless_running (c : Cfg) (iv : Nat) (s : T) (hs : reachable c iv s) :
    (∀ op r, step c s op = some r → ∀ k, (⟨.tick, k⟩ : Obs) ∈ r.2 →
        r.1.running = true ∧ r.1.ticks = k ∧ done c k = false) ∧
    (∀ r, step c s .clock = some r → s.running = true) ∧
    (s.running = false → s.resume = none → ∀ ops r, (∀ op ∈ ops, op = .clock ∨ (∃ t, op = .to t) ∨ ∃ d, op = .stall d) →
        run c s ops = some r → r.2 = [] ∧ r.1.running = false ∧ r.1.resume = none) := by
  have i := reachable_inv hs
  refine ⟨fun op r h k hk => (step_facts c s op r i h).2 k hk, ?_, ?_⟩
  · intro r h
    simp only [step] at h
    cases ha : s.arm with
    | none => simp [ha] at h
    | some a =>
      simp only [ha] at h
      split at h
      · rename_i hc; exact hc.1
      · cases h
  · intro hrun hres ops
    clear i hs
    induction ops generalizing s with
    | nil => intro r _ h; simp [run] at h; subst h; exact ⟨rfl, hrun, hres⟩
    | cons op ops ih =>
      intro r hops h
      obtain ⟨r1, r2, h1, h2, rfl⟩ := run_cons h
      have key : r1.2 = [] ∧ r1.1.running = false ∧ r1.1.resume = none := by
        rcases hops op (by simp) with e | ⟨t, e⟩ | ⟨d, e⟩
        · subst e
          simp only [step] at h1
          cases ha : s.arm with
          | none => simp [ha] at h1
          | some a =>
            simp only [ha] at h1
            split at h1
            · rename_i hc; rw [hrun] at hc; simp at hc
            · cases h1
        · subst e
          simp only [step] at h1
          split at h1
          · injection h1 with h1; subst h1; exact ⟨rfl, hrun, hres⟩
          · cases h1
        · subst e
          simp only [step] at h1
          injection h1 with h1; subst h1; exact ⟨rfl, hrun, hres⟩
      obtain ⟨k1, k2, k3⟩ := key
      obtain ⟨a1, a2, a3⟩ := ih r1.1 k2 k3 r2 (fun o ho => hops o (by simp [ho])) h2
      exact ⟨by simp [k1, a1], a2, a3⟩

/-- **timer_dies_with_mode** (a device-owned delay manager dies with the mode).  When the owning mode stops,
`Mode._finish_stop` removes its devices: `Timer.device_removed_from_mode` = `stop()` (`Op.removed`; the control events are
unregistered, so no further call reaches the timer).  In every reachable state — running, paused with or without a timed
pause pending on the timer's *own* DelayManager, however late the loop is — the removal posts `stopped` and nothing else,
leaves the timer not running with no pause end pending, and from then on, whatever time passes, however the loop stalls and
whatever is still in the loop (the system timer, the pause delay), the timer never posts anything again: the pause delay
cannot run (`resumeFire` is disabled) and the system timer is silent. -/
theorem timer_dies_with_mode (c : Cfg) (iv : Nat) (s : T) (hs : reachable c iv s) (r : T × List Obs)
    (h : step c s .removed = some r) :
    r.2 = [⟨.stopped, s.ticks⟩] ∧ r.1.running = false ∧ r.1.resume = none ∧ step c r.1 .resumeFire = none ∧
    ∀ ops r', (∀ op ∈ ops, op = .clock ∨ (∃ t, op = .to t) ∨ ∃ d, op = .stall d) → run c r.1 ops = some r' →
      r'.2 = [] ∧ r'.1.running = false ∧ r'.1.resume = none ∧ r'.1.ticks = s.ticks := by
  simp only [step] at h; injection h with h; subst h
  have hr : reachable c iv (doStop s).1 := by
    obtain ⟨ops, tr, ho⟩ := hs
    refine ⟨ops ++ [.removed], tr ++ [⟨.stopped, s.ticks⟩], ?_⟩
    generalize init c iv = s0 at ho
    induction ops generalizing s0 tr with
    | nil => simp [run] at ho; obtain ⟨rfl, rfl⟩ := ho; simp [run, step, doStop]
    | cons op ops ih =>
      obtain ⟨r1, r2, e1, e2, e3⟩ := run_cons ho
      injection e3 with e3a e3b; subst e3a; subst e3b
      have := ih r2.2 r1.1 e2
      simp [run, e1, this]
  refine ⟨rfl, rfl, rfl, by simp [step, doStop], ?_⟩
  intro ops r' hops hrun
  obtain ⟨a1, a2, a3⟩ := (no_tick_unless_running c iv (doStop s).1 hr).2.2 rfl rfl ops r' hops hrun
  refine ⟨a1, a2, a3, ?_⟩
  clear a1 a2 a3 hr
  have key : ∀ (ops : List Op) (s0 : T) (r' : T × List Obs), s0.running = false →
      (∀ op ∈ ops, op = .clock ∨ (∃ t, op = .to t) ∨ ∃ d, op = .stall d) → run c s0 ops = some r' →
      r'.1.ticks = s0.ticks := by
    intro ops
    induction ops with
    | nil => intro s0 r' _ _ h; simp [run] at h; subst h; rfl
    | cons op ops ih =>
      intro s0 r' hnr hops h
      obtain ⟨r1, r2, e1, e2, rfl⟩ := run_cons h
      have k1 : r1.1.ticks = s0.ticks ∧ r1.1.running = false := by
        rcases hops op (by simp) with e | ⟨t, e⟩ | ⟨d, e⟩
        · subst e
          simp only [step] at e1
          cases ha : s0.arm with
          | none => simp [ha] at e1
          | some a =>
            simp only [ha] at e1
            split at e1
            · rename_i hc; rw [hnr] at hc; simp at hc
            · cases e1
        · subst e
          simp only [step] at e1
          split at e1
          · injection e1 with e1; subst e1; exact ⟨rfl, hnr⟩
          · cases e1
        · subst e
          simp only [step] at e1
          injection e1 with e1; subst e1; exact ⟨rfl, hnr⟩
      have := ih r1.1 r2 k1.2 (fun o ho => hops o (by simp [ho])) e2
      simp only at this ⊢
      rw [this, k1.1]
  exact key ops (doStop s).1 r' rfl hops hrun

/-- **ticks_one_interval_apart** (with late deliveries).  When the system timer runs (`Op.clock` is enabled), `arm = some a`
where `a + iv` is the instant this run was **due**: it is never early (`a + iv ≤ now`), late by at most the time the loop
has been blocked since it was last idle (`now ≤ a + iv + slack`), hence at exactly `a + iv` when nothing blocked the loop
(`slack = 0`; `exact_without_stalls`).  The schedule is absolute: `a = t0 + cnt * iv` (`t0` = the (re)start, jump or
interval change that created the system timer, `cnt` = its runs since), and if the timer does not reach its end value in
this run the next run is due at exactly `a + iv + iv` **whatever the lateness of this one** (`arm` advances by one interval,
not to `now`): consecutive clock ticks are due exactly `iv` apart, lateness is not carried forward, and ticks missed
during a stall are delivered back to back (`late_ticks_catch_up`).  If the run completes the timer, a
`restart_on_complete` restart creates a fresh schedule at the instant it actually happens. -/
theorem ticks_one_interval_apart (c : Cfg) (iv : Nat) (s : T) (hs : reachable c iv s) (r : T × List Obs)
    (h : step c s .clock = some r) :
    ∃ a, s.arm = some a ∧ a = s.t0 + s.cnt * s.iv ∧ a + s.iv ≤ s.now ∧ s.now ≤ a + s.iv + s.slack ∧
      (s.slack = 0 → s.now = a + s.iv) ∧ r.1.now = s.now ∧ r.1.slack = s.slack ∧
      (done c (bump c s.ticks) = false →
        r.1.running = true ∧ r.1.arm = some (a + s.iv) ∧ r.1.iv = s.iv ∧ r.1.t0 = s.t0 ∧ r.1.cnt = s.cnt + 1) ∧
      (done c (bump c s.ticks) = true → r.1.running = true →
        r.1.arm = some s.now ∧ r.1.t0 = s.now ∧ r.1.cnt = 0) := by
  have i := reachable_inv hs
  simp only [step] at h
  cases ha : s.arm with
  | none => simp [ha] at h
  | some a =>
    simp only [ha] at h
    split at h
    · rename_i hc
      have hge := i.arm_ge hc.1 a ha
      refine ⟨a, rfl, i.arm_abs a ha, hc.2, hge, fun h0 => by omega, ?_⟩
      split at h
      · rename_i hd
        injection h with h; subst h
        refine ⟨?_, ?_, fun hnd => (by rw [hd] at hnd; cases hnd), ?_⟩
        · by_cases hr : c.roc = true
          · by_cases hd2 : done c (clip c c.start) = true <;> simp [doComplete, hr, hd2, doStop]
          · simp [doComplete, hr, doStop]
        · exact doComplete_slack c _
        · intro _ hrun
          by_cases hr : c.roc = true
          · by_cases hd2 : done c (clip c c.start) = true
            · simp [doComplete, hr, hd2, doStop] at hrun
            · simp [doComplete, hr, hd2, doStop]
          · simp [doComplete, hr, doStop] at hrun
      · rename_i hd
        injection h with h; subst h
        refine ⟨rfl, rfl, fun _ => ⟨hc.1, rfl, rfl, rfl, rfl⟩, fun hd' => absurd hd' hd⟩
    · cases h

/-- **late_ticks_catch_up** (the PeriodicTask catch-up rule on the timer device).  In every reachable state of a running
timer the system timer is armed at `a = t0 + cnt * iv` and (a) it can run iff its due instant `a + iv` has come — so
after a stall that covered `k` intervals it can run `k` times at the same instant, each run moving `a` on by one interval
(`ticks_one_interval_apart`), as long as the end value is not reached; (b) the loop cannot go idle (`Op.to t`) past a due
run: `t ≤ a + iv` — missed ticks are all delivered before time passes again; (c) a stall changes nothing but the clock:
no event, same count, same schedule. -/
theorem late_ticks_catch_up (c : Cfg) (iv : Nat) (s : T) (hs : reachable c iv s) (hrun : s.running = true) :
    ∃ a, s.arm = some a ∧ a = s.t0 + s.cnt * s.iv ∧
      ((step c s .clock).isSome = true ↔ a + s.iv ≤ s.now) ∧
      (∀ t r, step c s (.to t) = some r → t ≤ a + s.iv ∧ r.1.slack = 0) ∧
      (∀ d r, step c s (.stall d) = some r → r.2 = [] ∧ r.1 = { s with now := s.now + d, slack := s.slack + d }) := by
  have i := reachable_inv hs
  obtain ⟨a, ha⟩ := i.run_armed hrun
  refine ⟨a, ha, i.arm_abs a ha, ?_, ?_, ?_⟩
  · simp only [step, ha, hrun, true_and]
    by_cases hle : a + s.iv ≤ s.now
    · simp only [hle, if_true]
      constructor
      · intro _; trivial
      · intro _; split <;> rfl
    · simp [hle]
  · intro t r h
    simp only [step] at h
    split at h
    · rename_i hc
      injection h with h; subst h
      have := hc.2.2 hrun
      rw [ha] at this
      exact ⟨by simpa using this, rfl⟩
    · cases h
  · intro d r h
    simp only [step] at h; injection h with h; subst h
    exact ⟨rfl, rfl⟩

/-- **exact_without_stalls.**  In a run from the freshly loaded timer in which nothing ever blocks the loop, `slack` is 0 in
the final state: the bounds of `ticks_one_interval_apart` / `pause_resumes_once` collapse to equalities — every clock tick
is at exactly `t0 + (cnt + 1) * iv`, every pause ends at exactly `pause instant + ms`. -/
theorem exact_without_stalls (c : Cfg) (iv : Nat) (ops : List Op) (s : T) (tr : List Obs)
    (hn : ∀ op ∈ ops, ∀ d, op ≠ .stall d) (h : run c (init c iv) ops = some (s, tr)) : s.slack = 0 :=
  run_noStall_slack c ops _ (s, tr) rfl hn h

/-- **timer_completes_iff_end_value** (reachable states include every stall of the loop, i.e. every pattern of late
deliveries).  For every operation: (a) a `complete` event is posted only with the count
at/past the end value; (b) afterwards a running timer is never at/past its end value — reaching it always completes;
(c) the operations that change the count (`add`, `subtract`, `jump`, a clock tick) post `complete` with the new count
whenever the new count is at/past the end value; (d) after `timer_complete` the timer has stopped, or — with
`restart_on_complete` and a start value that is not itself at the end — is running again from the (clipped) start value;
(e) lateness never changes the count: a stall posts nothing and leaves count and `running` as they are, and a late clock
tick (clause for `.clock`: however late, once per missed interval) counts exactly one — so the count reaches the end value
after exactly as many clock ticks as without the stall, and completes there. -/
theorem timer_completes_iff_end_value (c : Cfg) (iv : Nat) (s : T) (hs : reachable c iv s) :
    (∀ op r, step c s op = some r →
        (∀ k, (⟨.complete, k⟩ : Obs) ∈ r.2 → done c k = true) ∧ (r.1.running = true → done c r.1.ticks = false)) ∧
    (∀ v r, step c s (.add v) = some r → done c (clip c (s.ticks + v)) = true →
        (⟨.complete, clip c (s.ticks + v)⟩ : Obs) ∈ r.2) ∧
    (∀ v r, step c s (.sub v) = some r → done c (s.ticks - v) = true → (⟨.complete, s.ticks - v⟩ : Obs) ∈ r.2) ∧
    (∀ v r, step c s (.jump v) = some r → done c (clip c v) = true → (⟨.complete, clip c v⟩ : Obs) ∈ r.2) ∧
    (∀ r, step c s .clock = some r → done c (bump c s.ticks) = true → (⟨.complete, bump c s.ticks⟩ : Obs) ∈ r.2) ∧
    (∀ t : T, done c t.ticks = true →
        (c.roc = false → (doComplete c t).1.running = false) ∧
        (c.roc = true → done c (clip c c.start) = false →
          (doComplete c t).1.running = true ∧ (doComplete c t).1.ticks = clip c c.start)) ∧
    ((∀ d r, step c s (.stall d) = some r → r.2 = [] ∧ r.1.ticks = s.ticks ∧ r.1.running = s.running) ∧
     (∀ r, step c s .clock = some r → done c (bump c s.ticks) = false →
        r.1.ticks = bump c s.ticks ∧ r.2 = [⟨.tick, bump c s.ticks⟩])) := by
  have i := reachable_inv hs
  refine ⟨?_, ?_, ?_, ?_, ?_, ?_, ?_, ?_⟩
  · intro op r h
    exact ⟨(step_facts c s op r i h).1, (step_inv c s op r i h).run_notdone⟩
  · intro v r h hd
    simp only [step] at h; injection h with h; subst h
    exact List.mem_cons_of_mem _ ((checkDone_facts c _).2.1 hd)
  · intro v r h hd
    simp only [step] at h; injection h with h; subst h
    exact List.mem_cons_of_mem _ ((checkDone_facts c _).2.1 hd)
  · intro v r h hd
    simp only [step] at h; injection h with h; subst h
    exact (checkDone_facts c _).2.1 hd
  · intro r h hd
    simp only [step] at h
    cases ha : s.arm with
    | none => simp [ha] at h
    | some a =>
      simp only [ha] at h
      split at h
      · injection h with h; subst h
        exact (doComplete_facts c _ hd).2.1
      · first | cases h | (rename_i hnd; exact absurd hd hnd) | skip
  · intro t hd
    exact ⟨(doComplete_facts c t hd).2.2.1, (doComplete_facts c t hd).2.2.2⟩
  · intro d r h
    simp only [step] at h; injection h with h; subst h
    exact ⟨rfl, rfl, rfl⟩
  · intro r h hd
    simp only [step] at h
    cases ha : s.arm with
    | none => simp [ha] at h
    | some a =>
      simp only [ha] at h
      split at h
      · simp only [hd] at h
        injection h with h; subst h
        exact ⟨rfl, rfl⟩
      · cases h

/-- **pause_resumes_once.**  (a) In every reachable state a running timer has no pause pending, and a pending pause end
is not overdue by more than the time the loop is blocked right now.  (b) `pause(ms)` with `ms > 0` leaves the timer not
running with the resume scheduled at exactly `now + ms`.  (c) When the pause delay runs it is never before that instant,
late by at most `slack` (exactly at that instant when nothing blocked the loop), the timer is started (unless its count is
at the end value) and no resume remains: it happens once.  (d) `stop` cancels the pending resume, and without a pending
resume the pause delay cannot run. -/
theorem pause_resumes_once (c : Cfg) (iv : Nat) (s : T) (hs : reachable c iv s) :
    ((s.running = true → s.resume = none) ∧ (∀ r, s.resume = some r → s.now ≤ r + s.slack)) ∧
    (∀ ms r, ms ≠ 0 → step c s (.pause ms) = some r → r.1.running = false ∧ r.1.resume = some (s.now + ms)) ∧
    (∀ r, step c s .resumeFire = some r →
        (∃ t, s.resume = some t ∧ t ≤ s.now ∧ s.now ≤ t + s.slack ∧ (s.slack = 0 → t = s.now)) ∧ r.1.resume = none ∧
        (done c s.ticks = false → r.1.running = true ∧ (⟨.started, s.ticks⟩ : Obs) ∈ r.2)) ∧
    (∀ r, step c s .stop = some r → r.1.resume = none ∧ r.1.running = false ∧ step c r.1 .resumeFire = none) := by
  have i := reachable_inv hs
  refine ⟨⟨i.run_noresume, i.resume_ge⟩, ?_, ?_, ?_⟩
  · intro ms r hms h
    simp only [step] at h; injection h with h; subst h
    simp [hms]
  · intro r h
    simp only [step] at h
    cases hr : s.resume with
    | none => simp [hr] at h
    | some t =>
      simp only [hr] at h
      split at h
      · rename_i hle
        have hge := i.resume_ge t hr
        injection h with h; subst h
        have hnr : s.running = false := by
          cases hb : s.running with
          | false => rfl
          | true => have := i.run_noresume hb; rw [hr] at this; cases this
        refine ⟨⟨t, rfl, hle, hge, fun h0 => by omega⟩, ?_, ?_⟩
        · simp only [doStart, hnr]
          by_cases hd : done c s.ticks = true
          · simp only [hd, if_true]
            by_cases hroc : c.roc = true
            · by_cases hd2 : done c (clip c c.start) = true <;> simp [doComplete, hroc, hd2, doStop]
            · simp [doComplete, hroc, doStop]
          · simp [hd]
        · intro hd
          simp [doStart, hnr, hd]
      · cases h
  · intro r h
    simp only [step] at h; injection h with h; subst h
    simp [doStop, step]

/-- non-vacuity on a concrete history (kernel evaluation): a timer counting up to 5 every 2 ticks; the loop stalls for 5
ticks at t = 1: the ticks due at 2, 4 and 6 are delivered back to back at 6 (the loop cannot go idle before: `to 7` is
refused after the first late tick), the next one is on the original schedule at 8; then a timed pause is pending when the
mode stops: the removal posts `stopped` and the pause end cannot run any more. -/
example :
    let c : Cfg := { endv := some 5 }
    (run c (init c 2) [.start, .to 1, .stall 5, .clock, .clock, .clock, .to 8, .clock, .pause 3, .removed, .to 20]).map
        (fun r => (r.2.map (fun o => (o.ev, o.ticks)), r.1.running, r.1.resume)) =
      some ([(.started, 0), (.tick, 0), (.tick, 1), (.tick, 2), (.tick, 3), (.tick, 4), (.paused, 4), (.stopped, 4)],
            false, none) ∧
    run c (init c 2) [.start, .to 1, .stall 5, .clock, .to 7] = none ∧
    run c (init c 2) [.start, .pause 3, .removed, .to 3, .resumeFire] = none ∧
    reachable c 2 (init c 2) := by
  refine ⟨by decide, by decide, by decide, [], [], rfl⟩

end MpfVerif.C13.Timer
