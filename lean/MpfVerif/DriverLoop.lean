/-! Generic line-protocol loop shared by all model drivers (`Drivers/Cxx.lean`). -/
namespace MpfVerif

partial def driverLoop {σ : Type} (step : σ → String → σ × String) (h out : IO.FS.Stream) (s : σ) : IO Unit := do
  let line ← h.getLine
  if line.isEmpty then return ()
  let l := (line.dropEndWhile (fun c => c == '\n' || c == '\r')).toString
  let (s', o) := step s l
  out.putStrLn o
  out.flush
  driverLoop step h out s'

/-- run a model: `step` gets the state and one input line, answers the new state and one output line -/
def runDriver {σ : Type} (step : σ → String → σ × String) (init : σ) : IO UInt32 := do
  driverLoop step (← IO.getStdin) (← IO.getStdout) init
  return 0

end MpfVerif
