import MpfVerif.Model.Bcp
/-! Line-protocol driver: `driver <model>` reads one op per line on stdin, answers one canonical line per op. -/

partial def loop {σ : Type} (step : σ → String → σ × String) (h : IO.FS.Stream) (out : IO.FS.Stream) (s : σ) : IO Unit := do
  let line ← h.getLine
  if line.isEmpty then return ()
  let l := (line.dropEndWhile (fun c => c == '\n' || c == '\r')).toString
  let (s', o) := step s l
  out.putStrLn o
  out.flush
  loop step h out s'

def main (args : List String) : IO UInt32 := do
  let i ← IO.getStdin
  let o ← IO.getStdout
  match args with
  | ["bcp"] => loop MpfVerif.Bcp.driverStep i o {}; return 0
  | _ => IO.eprintln "unknown model"; return 2
