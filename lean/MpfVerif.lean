import MpfVerif.Props.C19
import MpfVerif.Props.C08
import MpfVerif.Props.C01
import MpfVerif.Props.C02
