import MpfVerif.Props.C19
