import MpfVerif.DriverLoop
import MpfVerif.Model.Driver
def main : IO UInt32 := MpfVerif.runDriver MpfVerif.Driver.driverStep {}
