import MpfVerif.DriverLoop
import MpfVerif.Model.Player
def main : IO UInt32 := MpfVerif.runDriver MpfVerif.Player.driverStep MpfVerif.Player.driverInit
