import MpfVerif.DriverLoop
import MpfVerif.Model.Writer
def main : IO UInt32 := MpfVerif.runDriver MpfVerif.Writer.driverStep {}
