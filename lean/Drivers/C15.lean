import MpfVerif.DriverLoop
import MpfVerif.Model.MachineVars
def main : IO UInt32 := MpfVerif.runDriver MpfVerif.MachineVars.driverStep {}
