import MpfVerif.DriverLoop
import MpfVerif.Model.Delay
/-! Driver of the C13 model (delays and periodic tasks). -/
def main : IO UInt32 := MpfVerif.runDriver MpfVerif.Delay.driverStep {}
