import MpfVerif.DriverLoop
import MpfVerif.Model.Delay
import MpfVerif.Model.TimerDevice
/-! Driver of the C13 models: delays / periodic tasks (default) and the Timer device (lines starting with `tm`). -/
def c13Step (d : MpfVerif.Delay.DSt × MpfVerif.TimerDevice.DSt) (line : String) :
    (MpfVerif.Delay.DSt × MpfVerif.TimerDevice.DSt) × String :=
  match (line.splitOn " ").filter (fun x => x != "") with
  | "tm" :: rest => let r := MpfVerif.TimerDevice.driverStep d.2 rest; ((d.1, r.1), r.2)
  | _ => let r := MpfVerif.Delay.driverStep d.1 line; ((r.1, d.2), r.2)
def main : IO UInt32 := MpfVerif.runDriver c13Step ({}, {})
