import MpfVerif.DriverLoop
import MpfVerif.Model.SwitchNet
/-! Driver of the C03 models (switch controller, one instance per switch; Switch device events, one instance per switch;
lines starting with `n`: the multi-switch model with re-entrant dispatch). -/
def main : IO UInt32 := MpfVerif.runDriver MpfVerif.SwitchNet.bothStep ({}, {})
