import MpfVerif.DriverLoop
import MpfVerif.Model.Switch
/-! Driver of the C03 models (switch controller, one instance per switch; Switch device events, one instance per switch). -/
def main : IO UInt32 := MpfVerif.runDriver MpfVerif.Switch.driverStep {}
