import MpfVerif.DriverLoop
import MpfVerif.Model.Switch
/-! Driver of the C03 model (switch controller, one model instance per switch). -/
def main : IO UInt32 := MpfVerif.runDriver MpfVerif.Switch.driverStep []
