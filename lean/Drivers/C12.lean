import MpfVerif.DriverLoop
import MpfVerif.Model.Config
def main : IO UInt32 := MpfVerif.runDriver MpfVerif.Config.driverStep ()
