import MpfVerif.DriverLoop
/-! Driver of the C12 model (stub until the model exists): answers bad-op to everything. -/
def main : IO UInt32 := MpfVerif.runDriver (fun (s : Unit) _ => (s, "bad-op")) ()
