import MpfVerif.DriverLoop
import MpfVerif.Model.ConfigExtDriver
def main : IO UInt32 := MpfVerif.runDriver MpfVerif.ConfigExt.driverStepX []
