import MpfVerif.DriverLoop
import MpfVerif.Model.EventBus
import MpfVerif.Gen.EventFacts
/-! Driver of the C01 model: the event bus with the facts the translator read from `mpf/core/events.py`. -/
open MpfVerif in
def main : IO UInt32 :=
  MpfVerif.runDriver (EventBus.driverStepF Gen.EventFacts.sourceFacts) (EventBus.initF Gen.EventFacts.sourceFacts)
