import MpfVerif.DriverLoop
import MpfVerif.Model.EventBus
def main : IO UInt32 := MpfVerif.runDriver MpfVerif.EventBus.driverStep MpfVerif.EventBus.init
