import MpfVerif.DriverLoop
import MpfVerif.Model.BallLedger
import MpfVerif.Model.BallPromise
/-! Driver of C05: the ball-ledger monitor (model shared with C04) and, for lines starting with `gs `, the promise ledger of
the game-level requests (Model/BallPromise.lean). -/
structure C05St where
  led : MpfVerif.BallLedger.DSt := {}
  pr : MpfVerif.BallPromise.St := {}

def c05Step (s : C05St) (line : String) : C05St × String :=
  match line.splitOn " " with
  | "gs" :: rest =>
    let (p, o) := MpfVerif.BallPromise.driverToks s.pr rest
    ({ s with pr := p }, o)
  | _ =>
    let (l, o) := MpfVerif.BallLedger.driverStep s.led line
    ({ s with led := l }, o)

def main : IO UInt32 := MpfVerif.runDriver c05Step {}
