import MpfVerif.DriverLoop
import MpfVerif.Model.Rules
def main : IO UInt32 := MpfVerif.runDriver MpfVerif.Rules.driverStep {}
