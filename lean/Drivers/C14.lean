import MpfVerif.DriverLoop
import MpfVerif.Model.Framing
def main : IO UInt32 := MpfVerif.runDriver MpfVerif.Framing.driverStep {}
