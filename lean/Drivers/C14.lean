import MpfVerif.DriverLoop
import MpfVerif.Model.Framing3
def main : IO UInt32 := MpfVerif.runDriver MpfVerif.Framing3.driverStep {}
