import MpfVerif.DriverLoop
import MpfVerif.Model.Framing2
def main : IO UInt32 := MpfVerif.runDriver MpfVerif.Framing2.driverStep {}
