import MpfVerif.DriverLoop
import MpfVerif.Model.BcpGen
import MpfVerif.Model.BcpJson
/-- `jenc` / `jdec` go to the concrete JSON codec, everything else to the table-driven BCP driver -/
def c19Step (s : MpfVerif.Bcp.RSt) (line : String) : MpfVerif.Bcp.RSt × String :=
  match MpfVerif.Bcp.jsonOp line with
  | some ans => (s, ans)
  | none => MpfVerif.Bcp.driverStepT s line
def main : IO UInt32 := MpfVerif.runDriver c19Step {}
