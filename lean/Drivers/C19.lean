import MpfVerif.DriverLoop
import MpfVerif.Model.Bcp
def main : IO UInt32 := MpfVerif.runDriver MpfVerif.Bcp.driverStep {}
