import MpfVerif.DriverLoop
import MpfVerif.Model.Light
import MpfVerif.Model.BatchLight
/-! Driver of the C09 models: light stack + software fade channels; lines starting with `B ` go to the batch model. -/
def c09Step (s : MpfVerif.Light.DSt × MpfVerif.Batch.BSt) (line : String) :
    (MpfVerif.Light.DSt × MpfVerif.Batch.BSt) × String :=
  match line.splitOn " " with
  | "B" :: rest => let (b, o) := MpfVerif.Batch.driverStep s.2 rest; ((s.1, b), o)
  | _ => let (l, o) := MpfVerif.Light.driverStep s.1 line; ((l, s.2), o)

def main : IO UInt32 := MpfVerif.runDriver c09Step (MpfVerif.Light.init, {})
