import MpfVerif.DriverLoop
import MpfVerif.Model.Light
/-! Driver of the C09 model (light stack + software fade channels). -/
def main : IO UInt32 := MpfVerif.runDriver MpfVerif.Light.driverStep MpfVerif.Light.init
