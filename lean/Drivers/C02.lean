import MpfVerif.DriverLoop
import MpfVerif.Model.QueueEvent
import MpfVerif.Model.EventBus
/-! Driver of the C02 models: lines starting with `bus ` go to the event-bus model (`_run_handlers`: relay / boolean
events), everything else to the queue-event model. -/
open MpfVerif in
def c02Step (s : QueueEvent.DState × EventBus.DState) (line : String) : (QueueEvent.DState × EventBus.DState) × String :=
  if line.startsWith "bus " then
    let (b, o) := EventBus.driverStep s.2 (line.drop 4).toString
    ((s.1, b), o)
  else
    let (q, o) := QueueEvent.driverStep s.1 line
    ((q, s.2), o)
def main : IO UInt32 := MpfVerif.runDriver c02Step (MpfVerif.QueueEvent.init, MpfVerif.EventBus.init)
