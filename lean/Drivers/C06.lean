import MpfVerif.DriverLoop
import MpfVerif.Model.Game
/-! Driver of the C06 model (the game coroutine as a resumable state machine). -/
def main : IO UInt32 := MpfVerif.runDriver MpfVerif.Game.driverStep ({} : MpfVerif.Game.St)
