import MpfVerif.DriverLoop
import MpfVerif.Model.CondDispatch
def main : IO UInt32 := MpfVerif.runDriver MpfVerif.CondDispatch.driverStep {}
