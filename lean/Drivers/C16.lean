import MpfVerif.DriverLoop
import MpfVerif.Model.Template
def main : IO UInt32 := MpfVerif.runDriver MpfVerif.Template.driverStep {}
