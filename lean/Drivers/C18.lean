import MpfVerif.DriverLoop
import MpfVerif.Model.LogicBlock
def main : IO UInt32 := MpfVerif.runDriver MpfVerif.LogicBlock.driverStep MpfVerif.LogicBlock.driverInit
