import MpfVerif.DriverLoop
import MpfVerif.Model.LogicBlock
import MpfVerif.Model.StateMachine
/-! the C18 driver serves two models: lines starting with `sm ` go to the state-machine model, everything else to the
logic-block model (unknown lines: `bad-op` in both) -/
structure C18State where
  lb : MpfVerif.LogicBlock.Sys := {}
  sm : MpfVerif.StateMachine.D := {}

def c18Step (st : C18State) (line : String) : C18State × String :=
  match line.splitOn " " with
  | "sm" :: rest => let r := MpfVerif.StateMachine.driverStep st.sm rest; ({ st with sm := r.1 }, r.2)
  | _ => let r := MpfVerif.LogicBlock.driverStep st.lb line; ({ st with lb := r.1 }, r.2)

def main : IO UInt32 := MpfVerif.runDriver c18Step {}
