import MpfVerif.DriverLoop
import MpfVerif.Model.BallLedger
/-! Driver of the ball-ledger monitor (C04). -/
def main : IO UInt32 := MpfVerif.runDriver MpfVerif.BallLedger.driverStep {}
