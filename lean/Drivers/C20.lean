import MpfVerif.DriverLoop
import MpfVerif.Model.Credits
def main : IO UInt32 := MpfVerif.runDriver MpfVerif.Credits.driverStep MpfVerif.Credits.driverInit
