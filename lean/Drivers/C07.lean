import MpfVerif.DriverLoop
import MpfVerif.Model.Mode
/-! Driver of the C07 model (mode lifecycle, active list, registries). -/
def main : IO UInt32 := MpfVerif.runDriver MpfVerif.Mode.driverStep MpfVerif.Mode.dinit
