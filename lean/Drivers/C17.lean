import MpfVerif.DriverLoop
import MpfVerif.Model.ShowKey
/-! Driver of the C17 model (a show-player key with its running-show instances). -/
def main : IO UInt32 := MpfVerif.runDriver MpfVerif.ShowKey.driverStep MpfVerif.ShowKey.init
