import MpfVerif.DriverLoop
import MpfVerif.Model.Show
/-! Driver of the C17 model (running show). -/
def main : IO UInt32 := MpfVerif.runDriver MpfVerif.Show.driverStep MpfVerif.Show.init
